"""Summarise /verif/mutation/*.json into /verif/mutation/README.md"""
import glob
import json
import os

NOTES = {
 "cython_distances.pyx": "lines 403-566 are `spike_distance_rf_cython`, which no front end calls and which is not among the 15 routine pairs (dead code): all 112 survivors there are expected and are excluded from the rate below",
}
rows = []
detail = []
for f in sorted(glob.glob("/verif/mutation/*.json")):
    d = json.load(open(f))
    res = d["results"]
    name = os.path.basename(f)[:-5]
    if name == "cython_distances.pyx":
        res = [r for r in res if not (398 <= r["line"] <= 570)]
    k = sum(r["verdict"] == "KILLED" for r in res)
    s = [r for r in res if r["verdict"] == "SURVIVED"]
    inv = sum(r["verdict"] in ("INVALID", "TIMEOUT") for r in res)
    base_ok = [r for r in s if "49 passed" in (r.get("baseline_with_mutant") or "") or name.endswith(".pyx")]
    rows.append("| %s | %s | %d | %d | %d | %d | %d |" % (name, ",".join(d["checks"]), len(res), k, len(s), len(base_ok), inv))
    detail.append("### %s\n" % name + (NOTES.get(name, "") + "\n\n" if name in NOTES else "\n") +
                  "\n".join("* line %d `%s`: `%s` → `%s`%s" % (r["line"], r["op"], r["old"][:90], r["new"][:90],
                                                                  ("  (baseline with mutant: %s)" % r["baseline_with_mutant"]) if r.get("baseline_with_mutant") else "")
                            for r in s) + "\n")
open("/verif/mutation/README.md", "w").write("""# Mutation sweeps (sensitivity measurement of the checks)

`tools/mutation_sweep.py <file> <checks> [max] [jobs]` applies one classical mutation operator at one site (relational
operator, off-by-one constant, min/max, swapped train / cursor / edge variable, and/or, searchsorted side, slice bound, ...),
runs the listed quick checks against the mutated tree (`VP_REPO`) and records KILLED / SURVIVED / INVALID.  Mutants of `.pyx`
files trivially keep the repository's tests green (nothing executes them); for `.py` files the last-but-one column counts the
survivors that ALSO keep the 49 baseline tests green - those are the blind spots worth reading.  Every survivor is listed
below; the ones inspected so far are equivalent mutants (ties that lead to the same arrays, cursor variables that are not
used by the single-pass routines, edge entries of discrete profiles which carry no meaning, one extra loop iteration that
touches nothing) or dead code.

## Reading of the survivors (all inspected)

* **Equivalent mutants** (the large majority): `<` ↔ `<=` / `>` ↔ `>=` in scan conditions where the tie leads to the same
  arrays (a shared spike handled by the "next from train 1" branch followed by the "next from train 2" branch produces the same
  zero-length piece / the same counts); `N > 1` → `N >= 1` in the Python kernels (for N = 1 the index `N-2` wraps to the same
  element - the `.pyx` twins of these ARE killed, by the emulator's bounds check); loop conditions of the add routines relaxed
  by one step (the last breakpoint is shared by both operands, so it can be consumed inside the loop or by the tail branch);
  larger `np.empty` buffers; cursor variables that the single-pass routines never read; `range(i+0, …)` pair loops that add a
  zero self-pair; `max(1, …)` ↔ `min(1, …)` in the Poisson pre-allocation; `np.unique` ↔ `np.sort` on two distinct edges.
* **Dead code**: `spike_distance_rf_cython` (112 survivors, excluded from the table).
* **Outside every statement**: the `almost_equal` helpers, the `ValueError` bounds validation of `PieceWiseConstFunc.integral`
  (the repository's own tests pin it), edge entries of discrete profiles, comparisons at *exactly* the 1e-6 reconcile tolerance
  or exactly `T_end` in the Poisson generator (probability zero), and `T_start = interval[1]` in `generate_poisson_spikes`
  (the train becomes empty, which still is "sorted, inside the interval, carrying its edges"; the spike *count* is recorded as
  evidence only because the statement fixes no distribution; the repository's tests fail on this mutant).
* **One real blind spot, now closed**: `SpikeTrain.copy()` returning wrong edges survived C01/C13/C18/C19 and the 49 tests (every
  measure reconciles the edges away).  C07 and C13 now require `copy()` to reproduce spikes *and* edges.

| file | checks run | mutants | killed | survived | survived and baseline green | invalid |
|---|---|---|---|---|---|---|
""" + "\n".join(rows) + "\n\n## Survivors\n\n" + "\n".join(detail))
print("\n".join(rows))
