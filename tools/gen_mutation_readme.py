"""Summarise /verif/mutation/*.json into /verif/mutation/README.md"""
import glob
import json
import os

NOTES = {
 "cython_distances.pyx": "lines 403-566 are `spike_distance_rf_cython`, which no front end calls and which is not among the 15 routine pairs (dead code): all 112 survivors there are expected and are excluded from the rate below",
}
rows = []
detail = []
for f in sorted(glob.glob("/verif/mutation/*.json")):
    d = json.load(open(f))
    res = d["results"]
    name = os.path.basename(f)[:-5]
    if name == "cython_distances.pyx":
        res = [r for r in res if not (398 <= r["line"] <= 570)]
    k = sum(r["verdict"] == "KILLED" for r in res)
    s = [r for r in res if r["verdict"] == "SURVIVED"]
    inv = sum(r["verdict"] in ("INVALID", "TIMEOUT") for r in res)
    base_ok = [r for r in s if "49 passed" in (r.get("baseline_with_mutant") or "") or name.endswith(".pyx")]
    rows.append("| %s | %s | %d | %d | %d | %d | %d |" % (name, ",".join(d["checks"]), len(res), k, len(s), len(base_ok), inv))
    detail.append("### %s\n" % name + (NOTES.get(name, "") + "\n\n" if name in NOTES else "\n") +
                  "\n".join("* line %d `%s`: `%s` → `%s`%s" % (r["line"], r["op"], r["old"][:90], r["new"][:90],
                                                                  ("  (baseline with mutant: %s)" % r["baseline_with_mutant"]) if r.get("baseline_with_mutant") else "")
                            for r in s) + "\n")
open("/verif/mutation/README.md", "w").write("""# Mutation sweeps (sensitivity measurement of the checks)

`tools/mutation_sweep.py <file> <checks> [max] [jobs]` applies one classical mutation operator at one site (relational
operator, off-by-one constant, min/max, swapped train / cursor / edge variable, and/or, searchsorted side, slice bound, ...),
runs the listed quick checks against the mutated tree (`VP_REPO`) and records KILLED / SURVIVED / INVALID.  Mutants of `.pyx`
files trivially keep the repository's tests green (nothing executes them); for `.py` files the last-but-one column counts the
survivors that ALSO keep the 49 baseline tests green - those are the blind spots worth reading.  Every survivor is listed
below; the ones inspected so far are equivalent mutants (ties that lead to the same arrays, cursor variables that are not
used by the single-pass routines, edge entries of discrete profiles which carry no meaning, one extra loop iteration that
touches nothing) or dead code.

| file | checks run | mutants | killed | survived | survived and baseline green | invalid |
|---|---|---|---|---|---|---|
""" + "\n".join(rows) + "\n\n## Survivors\n\n" + "\n".join(detail))
print("\n".join(rows))
