#!/bin/bash
# usage: run_mutant.sh <patch.diff> <name> [demo.py] [checks...]   (checks default: all 20)
# Applies the patch to a scratch worktree of /repo HEAD (outside /repo and /verif), confirms the baseline still passes,
# runs the demo (must fail), runs the given checks with VP_REPO=<scratch>, prints one line per check, removes the worktree.
set -u
PATCH=$1; NAME=$2; DEMO=${3:-}; shift 3 || shift $#
CHECKS=${*:-C01 C02 C03 C04 C05 C06 C07 C08 C09 C10 C11 C12 C13 C14 C15 C16 C17 C18 C19 C20}
WT=/tmp/mw/$NAME
OUT=/tmp/mw_out/$NAME
rm -rf $WT $OUT; mkdir -p /tmp/mw $OUT
git -C /repo worktree add --detach $WT HEAD >/dev/null 2>&1 || { echo "$NAME worktree-failed"; exit 2; }
cleanup() { git -C /repo worktree remove --force $WT >/dev/null 2>&1; git -C /repo worktree prune; }
trap cleanup EXIT
if ! git -C $WT apply $PATCH 2>$OUT/apply.err; then
  if ! git -C $WT apply --3way $PATCH 2>>$OUT/apply.err; then echo "$NAME APPLY-FAILED $(head -c 300 $OUT/apply.err | tr '\n' ' ')"; exit 3; fi
fi
( cd $WT && PYTHONPATH=$WT /venv/bin/python -m pytest -q -p no:cacheprovider --timeout=900 2>&1 | tail -1 ) > $OUT/baseline.txt
BASE=$(cat $OUT/baseline.txt)
DEMORES=na
if [ -n "$DEMO" ] && [ -f "$DEMO" ]; then
  ( cd $OUT && PYTHONPATH=$WT timeout 600 /venv/bin/python $DEMO >$OUT/demo.out 2>&1 ); DEMORES=$?
fi
echo "$NAME baseline=[$BASE] demo_exit_with_patch=$DEMORES"
for c in $CHECKS; do
  ( cd /verif && VP_REPO=$WT VP_SCRATCH=$OUT /venv/bin/python -B -m vp.check $c --tier ${TIER:-quick} > $OUT/$c.log 2>&1 ); rc=$?
  echo "$NAME $c exit=$rc $(grep -m1 'what:' $OUT/$c.log | cut -c1-150)"
done
