"""Collect confirmed seeded changes into /verif/seeded/<id>/ (patch.diff rebased on /repo HEAD, demo, notes, meta.json).

For every /tmp/seeded_out/<name>: re-apply the patch on a scratch worktree of /repo HEAD, regenerate the diff, run the demo
on the clean tree (must exit 0) - the with-patch results (baseline still 49 passed, demo fails, which checks fire) are read
from the matrix logs written by tools/run_mutant.sh.
"""
import glob
import json
import os
import re
import shutil
import subprocess
import sys

SRC = os.environ.get("SEEDED_SRC", "/tmp/seeded_out")
DST = "/verif/seeded"
PROPS = {json.loads(l)["id"]: json.loads(l) for l in open("/verif/properties.jsonl")}


def sh(cmd, **kw):
    return subprocess.run(cmd, shell=True, capture_output=True, text=True, **kw)


def main():
    names = sorted(os.listdir(SRC))
    only = sys.argv[1:]
    prefix = os.environ.get("SEEDED_PREFIX", "")
    for src_name in names:
        name = prefix + src_name
        if only and name not in only and src_name not in only:
            continue
        d = os.path.join(SRC, src_name)
        log = "/tmp/mw_matrix_%s.log" % name
        if not os.path.exists(log):
            print(name, "no matrix log yet")
            continue
        lines = open(log).read().strip().split("\n")
        head = lines[0]
        m = re.search(r"baseline=\[(.*?)\] demo_exit_with_patch=(\S+)", head)
        if not m:
            print(name, "unusable log:", head[:200])
            continue
        baseline, demo_rc = m.group(1), m.group(2)
        caught = {}
        for ln in lines[1:]:
            mm = re.match(r"(\S+) (C\d+) exit=(\d+)\s*(.*)", ln)
            if mm:
                caught[mm.group(2)] = {"exit": int(mm.group(3)), "what": mm.group(4).replace("what:", "").strip()}
        # clean-tree demo
        clean = sh("cd %s && PYTHONPATH=/repo timeout 600 /venv/bin/python demo.py" % d)
        wt = "/tmp/mw/rebase_%s" % name
        sh("rm -rf %s; git -C /repo worktree add --detach %s HEAD" % (wt, wt))
        ap = sh("git -C %s apply %s/patch.diff || git -C %s apply --3way %s/patch.diff" % (wt, d, wt, d))
        diff_b = subprocess.run("git -C %s diff HEAD" % wt, shell=True, capture_output=True).stdout     # bytes: CRLF files
        diff = diff_b.decode("utf-8", "replace")
        sh("git -C /repo worktree remove --force %s; git -C /repo worktree prune" % wt)
        prop = src_name.split("_")[0]
        if not prop.startswith("C"):
            # round 3: the property is named on the first line of notes.md ("breaks: Cxx")
            try:
                first = open(os.path.join(d, "notes.md")).read().strip().split("\n")[0]
                mm = re.search(r"C\d\d", first)
                prop = mm.group(0) if mm else "C00"
            except OSError:
                prop = "C00"
        own = os.path.exists(os.path.join(d, "info.json"))
        if own:
            prop = json.load(open(os.path.join(d, "info.json")))["prop"]
        ok = ("49 passed" in baseline and demo_rc not in ("0", "na") and clean.returncode == 0 and diff.strip())
        out = os.path.join(DST, name)
        if not ok:
            print(name, "NOT CONFIRMED: baseline=%r demo_with_patch=%s demo_clean=%s diff=%d bytes" % (baseline, demo_rc, clean.returncode, len(diff)))
            continue
        os.makedirs(out, exist_ok=True)
        open(os.path.join(out, "patch.diff"), "wb").write(diff_b)
        shutil.copy(os.path.join(d, "demo.py"), os.path.join(out, "demo.py"))
        notes = open(os.path.join(d, "notes.md")).read() if os.path.exists(os.path.join(d, "notes.md")) else ""
        open(os.path.join(out, "notes.md"), "w").write(notes)
        fired = sorted(k for k, v in caught.items() if v["exit"] == 1)
        meta = {
            "name": name, "breaks_property": prop, "property_title": PROPS[prop]["title"],
            "round": (6 if prefix == "r6_" else 5 if prefix == "r5_" else 4 if prefix == "r4_" else 3 if prefix == "r3_" else 2 if prefix == "r2_" else 1),
            "origin": ("reverse of one of the repository repairs of DESIGN.md section 8 (a historical defect the baseline tests never noticed); written by the framework author" if own else
                       "written by an independent sub-agent that was given only the property text and a scratch worktree"),
            "needs_to_manifest": notes.strip()[:1500],
            "confirmed": {"baseline_with_patch": baseline, "demo_exit_with_patch": int(demo_rc), "demo_exit_on_clean_tree": clean.returncode,
                          "how": "tools/run_mutant.sh: scratch worktree of /repo HEAD, git apply, pytest baseline, demo.py with PYTHONPATH=<worktree>, then every quick check with VP_REPO=<worktree>"},
            "checks_that_fired_quick_tier": {k: caught[k]["what"] for k in fired},
            "owning_check_fired": prop in fired,
            "checks_inconclusive": sorted(k for k, v in caught.items() if v["exit"] not in (0, 1)),
        }
        json.dump(meta, open(os.path.join(out, "meta.json"), "w"), indent=1)
        print(name, "ok; owner fired:", prop in fired, "; fired:", " ".join(fired))


if __name__ == "__main__":
    main()
