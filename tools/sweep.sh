#!/bin/bash
# usage: tools/sweep.sh <tier> <seed...>   runs every check with each seed (fresh process each), evidence redirected to scratch;
# prints only the final line of each run; non-OK runs are listed at the end.  Used to hunt false alarms before committing.
TIER=$1; shift
OUT=${SWEEP_OUT:-/tmp/vp_sweep}
mkdir -p $OUT
BAD=0
for s in "$@"; do
  for i in $(seq -w 1 20); do
    ( cd /verif && VP_SCRATCH=$OUT/s$s PYTHONHASHSEED=0 /venv/bin/python -B -m vp.check C$i --tier $TIER --seed $s > $OUT/C${i}_${TIER}_$s.log 2>&1 ); rc=$?
    tail -1 $OUT/C${i}_${TIER}_$s.log
    if [ $rc -ne 0 ]; then BAD=$((BAD+1)); echo "   ^^^ exit=$rc see $OUT/C${i}_${TIER}_$s.log"; fi
  done
done
echo "sweep done: $BAD non-zero exits"
