#!/bin/bash
# usage: seed_stability.sh <seeded-name> <seeds...> : applies /verif/seeded/<name>/patch.diff to a scratch worktree and runs the
# check(s) that fired for it at seed 0 (owning check first) with other seeds; prints "<name> <check> seed=<s> exit=<rc>"
NAME=$1; shift
WT=/tmp/mw/ss_$NAME; OUT=/tmp/mw_out/ss_$NAME
rm -rf $WT $OUT; mkdir -p /tmp/mw $OUT
git -C /repo worktree add --detach $WT HEAD >/dev/null 2>&1 || exit 2
trap "git -C /repo worktree remove --force $WT >/dev/null 2>&1; git -C /repo worktree prune" EXIT
git -C $WT apply /verif/seeded/$NAME/patch.diff || { echo "$NAME APPLY-FAILED"; exit 3; }
CHECK=$(/venv/bin/python -c "
import json; m=json.load(open('/verif/seeded/$NAME/meta.json'))
f=sorted(m['checks_that_fired_quick_tier']); o=m['breaks_property']
print(o if o in f else f[0])")
for s in "$@"; do
  ( cd /verif && VP_REPO=$WT VP_SCRATCH=$OUT /venv/bin/python -B -m vp.check $CHECK --tier quick --seed $s > $OUT/$CHECK.$s.log 2>&1 ); rc=$?
  echo "$NAME $CHECK seed=$s exit=$rc"
done
