"""Classical mutation sweep over the backend kernels, as a measurement of the checks' sensitivity.

usage: /venv/bin/python tools/mutation_sweep.py <file relative to /repo> <checks,comma-separated> [max_mutants] [jobs]

For every applicable (line, operator) pair one mutant tree is built under /tmp/mw/ms_<k>/ (a copy of /repo/pyspike only), the
given quick checks are run against it with VP_REPO, and the tree is removed.  Result lines:
   KILLED <check> | SURVIVED | INVALID (does not import / emulator refuses) ; a JSON summary is written to
   /verif/mutation/<file>.json .  Mutants of .pyx files trivially keep the repository's test-suite green (the .pyx files are
   never executed by it); for .py files the summary also records whether the 49 baseline tests still pass.
"""
import concurrent.futures
import json
import os
import re
import shutil
import subprocess
import sys

OPS = [
    ("lt->le", re.compile(r"(?<![<>=!])<(?![=<])"), "<="),
    ("le->lt", re.compile(r"<="), "<"),
    ("gt->ge", re.compile(r"(?<![<>=!-])>(?![=>])"), ">="),
    ("ge->gt", re.compile(r">="), ">"),
    ("eq->ne", re.compile(r"=="), "!="),
    ("plus1->0", re.compile(r"\+\s*1\b"), "+0"),
    ("minus1->0", re.compile(r"-\s*1\b"), "-0"),
    ("minus2->1", re.compile(r"-\s*2\b"), "-1"),
    ("fmax->fmin", re.compile(r"\bfmax\("), "fmin("),
    ("fmin->fmax", re.compile(r"\bfmin\("), "fmax("),
    ("max->min", re.compile(r"(?<![\w.])max\("), "min("),
    ("min->max", re.compile(r"(?<![\w.])min\("), "max("),
    ("index1->index2", re.compile(r"\bindex1\b"), "index2"),
    ("index2->index1", re.compile(r"\bindex2\b"), "index1"),
    ("N1->N2", re.compile(r"\bN1\b"), "N2"),
    ("N2->N1", re.compile(r"\bN2\b"), "N1"),
    ("t_start->t_end", re.compile(r"\bt_start\b"), "t_end"),
    ("t_end->t_start", re.compile(r"\bt_end\b"), "t_start"),
    ("s1->s2", re.compile(r"\bs1\["), "s2["),
    ("s2->s1", re.compile(r"\bs2\["), "s1["),
    ("spikes1->spikes2", re.compile(r"\bspikes1\["), "spikes2["),
    ("spikes2->spikes1", re.compile(r"\bspikes2\["), "spikes1["),
    ("and->or", re.compile(r"\band\b"), "or"),
    ("or->and", re.compile(r"\bor\b"), "and"),
    ("half->one", re.compile(r"0\.5\*"), "1.0*"),
    ("i->j", re.compile(r"\[i\]"), "[j]"),
    ("j->i", re.compile(r"\[j\]"), "[i]"),
    ("+=->-=", re.compile(r"\+="), "-="),
    ("right->left", re.compile(r"side='right'"), "side='left'"),
    ("left->right", re.compile(r"side='left'"), "side='right'"),
    ("[1:-1]->[1:]", re.compile(r"\[1:-1\]"), "[1:]"),
    ("[:-1]->[:]", re.compile(r"\[:-1\]"), "[:]"),
    ("[1:]->[:]", re.compile(r"\[1:\]"), "[:]"),
    ("y1->y2", re.compile(r"\bself\.y1\b"), "self.y2"),
    ("y2->y1", re.compile(r"\bself\.y2\b"), "self.y1"),
    ("start_ind->end_ind", re.compile(r"\bstart_ind\b"), "end_ind"),
    ("end_ind->start_ind", re.compile(r"\bend_ind\b"), "start_ind"),
    ("interval0->1", re.compile(r"interval\[0\]"), "interval[1]"),
    ("interval1->0", re.compile(r"interval\[1\]"), "interval[0]"),
    ("mp->y", re.compile(r"\bself\.mp\b"), "self.y"),
    ("unique->sort", re.compile(r"np\.unique\("), "np.sort("),
    ("minus_eps", re.compile(r"tStart-Eps"), "tStart+Eps"),
    ("plus_eps", re.compile(r"tEnd\+Eps"), "tEnd-Eps"),
    ("min->max_fn", re.compile(r"= min\("), "= max("),
    ("max->min_fn", re.compile(r"= max\("), "= min("),
]


def code_lines(path):
    src = open(path, newline="").read().split("\n")
    out = []
    in_doc = False
    in_func = False
    for k, ln in enumerate(src):
        s = ln.strip()
        if s.count('"""') == 1:
            in_doc = not in_doc
            continue
        if in_doc or not s or s.startswith("#") or s.startswith('"""'):
            continue
        if re.match(r"^(def|cdef|cpdef)\b", s) and "(" in s:
            in_func = True
            continue
        if not ln.startswith((" ", "\t")):
            in_func = bool(re.match(r"^(def|cdef|cpdef)\b", s))
            continue
        if in_func and not s.startswith(("cdef ", "import ", "from ", "print", "assert", "raise", "return spike_events", '"')):
            out.append(k)
    return src, out


def mutants(path):
    src, lines = code_lines(path)
    for k in lines:
        code = src[k].split("#")[0]
        comment = src[k][len(code):]
        for name, rx, rep in OPS:
            ms = list(rx.finditer(code))
            for q, m in enumerate(ms[:2]):           # at most two sites per line and operator
                new = code[:m.start()] + rep + code[m.end():]
                if new != code:
                    yield (k + 1, name, q, new + comment)


def run_one(args):
    idx, rel, lineno, op, site, newline_, checks = args
    root = "/tmp/mw/ms_%s_%d" % (os.path.basename(rel).replace(".", "_"), idx)
    shutil.rmtree(root, ignore_errors=True)
    os.makedirs(root)
    shutil.copytree("/repo/pyspike", os.path.join(root, "pyspike"))
    path = os.path.join(root, rel)
    src = open(path, newline="").read().split("\n")
    old = src[lineno - 1]
    src[lineno - 1] = newline_
    open(path, "w", newline="").write("\n".join(src))
    res = {"line": lineno, "op": op, "site": site, "old": old.strip(), "new": newline_.strip(), "verdict": "SURVIVED", "by": None}
    env = dict(os.environ, VP_REPO=root, VP_SCRATCH=os.path.join(root, "_out"), PYTHONHASHSEED="0")
    try:
        for c in checks:
            p = subprocess.run(["/venv/bin/python", "-B", "-m", "vp.check", c, "--tier", "quick"], cwd="/verif", env=env,
                               capture_output=True, text=True, timeout=1500)
            if p.returncode == 1:
                what = [l for l in p.stdout.split("\n") if "what:" in l]
                res.update(verdict="KILLED", by=c, what=what[0].strip()[:160] if what else "")
                break
            if p.returncode == 2:
                res.update(verdict="INVALID", by=c, what=p.stdout[-300:])
                break
            if p.returncode != 0:
                res.update(verdict="INVALID", by=c, what=(p.stdout + p.stderr)[-300:])
                break
        if res["verdict"] == "SURVIVED" and rel.endswith(".py"):
            shutil.copytree("/repo/test", os.path.join(root, "test"))
            t = subprocess.run("cd %s && PYTHONPATH=%s /venv/bin/python -m pytest -q -x -p no:cacheprovider --timeout=300 "
                               "--deselect test/numeric/test_regression_random_spikes.py 2>&1 | tail -1" % (root, root),
                               shell=True, capture_output=True, text=True, timeout=900)
            res["baseline_with_mutant"] = t.stdout.strip()[-120:]
    except subprocess.TimeoutExpired:
        res.update(verdict="TIMEOUT")
    finally:
        shutil.rmtree(root, ignore_errors=True)
    return res


def main():
    rel = sys.argv[1]
    checks = sys.argv[2].split(",")
    limit = int(sys.argv[3]) if len(sys.argv) > 3 else 10 ** 9
    jobs = int(sys.argv[4]) if len(sys.argv) > 4 else 3
    ms = list(mutants(os.path.join("/repo", rel)))
    if len(ms) > limit:
        import random
        random.Random(0).shuffle(ms)
        ms = sorted(ms[:limit])
    work = [(i, rel, ln, op, site, new, checks) for i, (ln, op, site, new) in enumerate(ms)]
    print("%d mutants of %s against %s" % (len(work), rel, checks), flush=True)
    results = []
    with concurrent.futures.ThreadPoolExecutor(max_workers=jobs) as ex:
        for r in ex.map(run_one, work):
            results.append(r)
            print("%-8s line %4d %-18s %-60s %s" % (r["verdict"], r["line"], r["op"], r["new"][:60], (r.get("by") or "")), flush=True)
    summ = {"file": rel, "checks": checks, "mutants": len(results),
            "killed": sum(r["verdict"] == "KILLED" for r in results), "survived": sum(r["verdict"] == "SURVIVED" for r in results),
            "invalid": sum(r["verdict"] in ("INVALID", "TIMEOUT") for r in results), "results": results}
    os.makedirs("/verif/mutation", exist_ok=True)
    json.dump(summ, open("/verif/mutation/%s.json" % os.path.basename(rel), "w"), indent=1)
    print("SUMMARY %s: %d mutants, %d killed, %d survived, %d invalid" % (rel, summ["mutants"], summ["killed"], summ["survived"], summ["invalid"]))


if __name__ == "__main__":
    main()
