"""Regenerate /verif/seeded/README.md from the meta.json files."""
import glob
import json


def rows(pattern):
    out = []
    for f in sorted(glob.glob(pattern)):
        m = json.load(open(f))
        first = [l for l in m["needs_to_manifest"].split("\n") if l.strip()][0].lstrip("# ").strip()
        nm = m["name"].replace("r2_", "")
        for sep in (" - ", " – ", ": "):
            if first.lower().startswith(nm.lower()) and sep in first:
                first = first.split(sep, 1)[-1]
                break
        fired = sorted(m["checks_that_fired_quick_tier"])
        own = m["breaks_property"]
        out.append("| %s | %s | %s | %s |" % (m["name"], first[:100].replace("|", "/"), ("**%s**" % own) if m["owning_check_fired"] else "–",
                                              " ".join(c for c in fired if c != own)))
    return out


r1, r2, ro = rows('/verif/seeded/C*/meta.json'), rows('/verif/seeded/r2_*/meta.json'), rows('/verif/seeded/own_*/meta.json')
r3 = rows('/verif/seeded/r3_*/meta.json')
r4 = rows('/verif/seeded/r4_*/meta.json')
r5 = rows('/verif/seeded/r5_*/meta.json')
r6 = rows('/verif/seeded/r6_*/meta.json')
readme = """# Seeded property-breaking changes

Each directory holds one change to mariomulansky/PySpike: `patch.diff` (rebased on the /repo HEAD the checks were validated
against; apply with `git -C /repo apply <file>`, undo with `git -C /repo checkout -- .`), `demo.py` (exits 0 on the clean tree,
non-zero with the change, run as `PYTHONPATH=<tree> /venv/bin/python demo.py`), `notes.md` (the author's description) and
`meta.json` (what it needs to manifest, what was run, which checks fired at the quick tier, seed 0).  All of them keep the
repository's 49 baseline tests green.  `Cxx_k` = round 1, `r2_Cxx_k` = round 2, `r3_Axx_j` = round 3, `r4_Bxx_j` = round 4, `r5_Exx_j` = round 5, `r6_Fxx_j` = round 6 (all written by independent sub-agents that
were given only the text of one property and a scratch worktree - nothing from /verif), `own_*` = exact reverses of the
repository repairs of DESIGN.md section 8 (written by the framework author).

Dropped candidates: C09_1 and r2_C11_2 (dtype-preserving allocation in an add backend) cannot manifest any more since the
repository repairs b41ad30 / 96fd8b7 make every function object a float array; their demos pass with the change applied.

## Round 1 (%d changes)

| change | what it is | owning check | other checks that fired |
|---|---|---|---|
""" % len(r1) + "\n".join(r1) + """

## Round 2 (%d changes; asked to avoid single-token slips: caches, fast paths, vectorised rewrites, cooperating edits, .pyx-only)

| change | what it is | owning check | other checks that fired |
|---|---|---|---|
""" % len(r2) + "\n".join(r2) + """

## Round 3 (%d changes; each agent got all 20 properties and one area of the code base - SpikeTrain, generic.py, isi_lengths, DiscreteFunc, spike_sync, spike_directionality, the .pyx files only, the function classes and psth, spikes.py, cross-module edits)

| change | what it is | property it breaks most directly (bold = that check fired) | other checks that fired |
|---|---|---|---|
""" % len(r3) + "\n".join(r3) + """

## Round 4 (%d changes; agents were told which ideas rounds 1-3 had used and asked for different ones: magnitude- or sign-dependent arithmetic, truthiness of 0, permutation bugs, mutable defaults, precedence slips, normalisation by a coincidentally equal count, numpy-scalar type checks, C float variables, uninitialised buffers)

| change | what it is | property it breaks most directly (bold = that check fired) | other checks that fired |
|---|---|---|---|
""" % len(r4) + "\n".join(r4) + """

## Round 5 (%d changes; one theme per agent: state surviving between calls, representation of valid input, rare coincidences of spike times, C-only slips in the `.pyx` files, averaging intervals, many trains / index selections, algebraically-equivalent-but-numerically-different rewrites, validation and error handling, text I/O / merge / PSTH, the coincidence kernels of the fallback)

| change | what it is | property it breaks most directly (bold = that check fired) | other checks that fired |
|---|---|---|---|
""" % len(r5) + "\n".join(r5) + """

## Round 6 (%d changes; each agent got the text of ONE property - C12, C15, C14, C09, C17, C06, the ones whose own check had missed something in an earlier round - plus the list of idea kinds already used, and was asked for places a test generator aimed at that property is least likely to drive)

| change | what it is | property it breaks most directly (bold = that check fired) | other checks that fired |
|---|---|---|---|
""" % len(r6) + "\n".join(r6) + """

## Reverse-repair changes (%d)

The two `.pyx`-only ones carry demos that execute the `.pyx` text through `/verif/vp/pyxemu.py` (no compiler exists here).

| change | what it is | owning check | other checks that fired |
|---|---|---|---|
""" % len(ro) + "\n".join(ro) + "\n"
open('/verif/seeded/README.md', 'w').write(readme)
print(len(r1), len(r2), len(r3), len(r4), len(r5), len(r6), len(ro))
