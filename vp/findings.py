"""Known-findings file: committed, read-only at run time.  Entries are keyed by MECHANISM (a label the
check computes from the witness), never by case hashes or random values.

  {"property": "C12", "key": "<mechanism label>", "what": "...", "status": "open" | "fixed:<commit>"}

Only status == "open" suppresses: a violation whose (property, key) matches an open entry is printed as
KNOWN-FINDING and does not fail the run.  "fixed:" entries suppress nothing.
"""
import json
import os

from . import env

PATH = os.path.join(env.VERIF, "known_findings.json")


def load():
    try:
        with open(PATH) as f:
            data = json.load(f)
    except FileNotFoundError:
        return []
    return data.get("findings", [])


def open_keys(prop_id):
    out = {}
    for e in load():
        if e.get("status") == "open" and e.get("property") == prop_id:
            out[e["key"]] = e
    return out
