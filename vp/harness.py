"""Worker-side machinery: context, call recording at the API boundary, immutability guard,
per-case bounded-progress watchdog, result files."""
import collections
import contextlib
import hashlib
import json
import math
import os
import random
import signal
import sys
import time
import traceback

import numpy as np

from . import env


class CutFailed(Exception):
    """the code under test raised / broke a contract; already recorded as a violation"""


class ContractBroken(Exception):
    """raised by icontract-based monitors"""


class CaseTimeout(BaseException):
    pass


class LineBudgetExceeded(BaseException):
    pass


def tol_close(a, b, rel=1e-9, absl=None):
    a = float(a)
    b = float(b)
    if a == b:
        return True
    if math.isnan(a) or math.isnan(b) or math.isinf(a) or math.isinf(b):
        return False
    if absl is None:
        absl = rel
    return abs(a - b) <= max(absl, rel * max(abs(a), abs(b)))


def short(obj, n=400):
    s = repr(obj)
    return s if len(s) <= n else s[:n] + "..."


def typed_encode(o):
    """like jsonable, but numpy scalars / 0-d arrays keep their type (replays must present the same representation)"""
    if isinstance(o, dict):
        return {str(k): typed_encode(v) for k, v in o.items()}
    if isinstance(o, tuple):
        return {"__tuple__": [typed_encode(v) for v in o]}
    if isinstance(o, list):
        return [typed_encode(v) for v in o]
    if isinstance(o, np.ndarray) and o.ndim == 0:
        return {"__np0d__": str(o.dtype), "v": o.item()}
    if isinstance(o, np.ndarray):
        return {"__nparr__": str(o.dtype), "v": o.tolist()}
    if isinstance(o, np.generic) and not isinstance(o, np.float64):
        return {"__npscalar__": type(o).__name__, "v": o.item()}
    if isinstance(o, np.float64):
        return {"__npscalar__": "float64", "v": float(o)}
    if isinstance(o, float) and (o != o or o in (float("inf"), float("-inf"))):
        return {"__float__": repr(o)}
    if isinstance(o, (str, int, float, bool)) or o is None:
        return o
    return jsonable(o)


def typed_decode(o):
    if isinstance(o, list):
        return [typed_decode(v) for v in o]
    if isinstance(o, dict):
        if "__tuple__" in o:
            return tuple(typed_decode(v) for v in o["__tuple__"])
        if "__np0d__" in o:
            return np.array(o["v"], dtype=o["__np0d__"])
        if "__nparr__" in o:
            return np.array(o["v"], dtype=o["__nparr__"])
        if "__npscalar__" in o:
            return getattr(np, o["__npscalar__"])(o["v"])
        if "__float__" in o:
            return float(o["__float__"])
        return {k: typed_decode(v) for k, v in o.items()}
    return o


def jsonable(o):
    if isinstance(o, dict):
        return {str(k): jsonable(v) for k, v in o.items()}
    if isinstance(o, (list, tuple)):
        return [jsonable(v) for v in o]
    if isinstance(o, np.ndarray):
        if o.ndim == 0:
            return jsonable(o.item())
        return [jsonable(v) for v in o.tolist()]
    if isinstance(o, (np.floating,)):
        return float(o)
    if isinstance(o, (np.integer,)):
        return int(o)
    if isinstance(o, (np.bool_,)):
        return bool(o)
    if isinstance(o, (str, int, float, bool)) or o is None:
        return o
    return repr(o)


def _same_result(ps, a, b):
    """bit-level comparison of two results of the same call (NaN == NaN)"""
    if isinstance(a, ps.SpikeTrain) and isinstance(b, ps.SpikeTrain):
        return None if (np.array_equal(a.spikes, b.spikes) and a.t_start == b.t_start and a.t_end == b.t_end) else "spike trains differ"
    for cls, names in ((ps.PieceWiseConstFunc, ("x", "y")), (ps.PieceWiseLinFunc, ("x", "y1", "y2")), (ps.DiscreteFunc, ("x", "y", "mp"))):
        if isinstance(a, cls):
            if not isinstance(b, cls):
                return "type differs"
            for n in names:
                u, v = np.asarray(getattr(a, n)), np.asarray(getattr(b, n))
                if cls is ps.DiscreteFunc and n != "x":
                    u, v = u[1:-1], v[1:-1]      # edge entries carry no meaning
                if u.shape != v.shape or not np.array_equal(u, v, equal_nan=True):
                    return "%s differs: %s vs %s" % (n, short(u.tolist()), short(v.tolist()))
            return None
    if isinstance(a, (list, tuple)):
        if not isinstance(b, (list, tuple)) or len(a) != len(b):
            return "sequence length differs"
        for k, (u, v) in enumerate(zip(a, b)):
            d = _same_result(ps, u, v)
            if d:
                return "[%d] %s" % (k, d)
        return None
    try:
        u, v = np.asarray(a, dtype=float), np.asarray(b, dtype=float)
    except Exception:
        return None
    if u.shape != v.shape or not np.array_equal(u, v, equal_nan=True):
        return "%s vs %s" % (short(u.tolist()), short(v.tolist()))
    return None


class Ctx(object):
    def __init__(self, prop_id, config, tier, seed, worker=0):
        self.prop_id = prop_id
        self.config = config
        self.tier = tier
        self.seed = seed
        self.worker = worker
        self.ps = env.boot(config)
        self.counters = collections.Counter()
        self.words = set()
        self.violations = []
        self.samples = []
        self.evals = 0
        self.cut_calls = 0
        self.cut_exceptions = 0
        self.guard_checks = 0
        self.readonly_calls = 0
        self.repeat_checks = 0
        self.case = None
        self.case_index = -1
        self.inconclusive = []
        self._viol_keys = collections.Counter()

    # ------------------------------------------------------------------ bookkeeping
    def count(self, key, n=1):
        self.counters[key] += n

    def word(self, w, nontrivial=True):
        if nontrivial:
            self.words.add(hashlib.sha1(str(w).encode()).hexdigest()[:12])

    def sample(self, obj, limit=3):
        if len(self.samples) < limit:
            self.samples.append(jsonable(obj))

    def violation(self, what, detail, extra=None):
        """what: short mechanism-level label (stable); detail: human-readable witness"""
        self._viol_keys[what] += 1
        if self._viol_keys[what] > 5 or len(self.violations) >= 60:
            self.counters["violations_suppressed_duplicates"] += 1
            return
        self.violations.append({
            "property": self.prop_id, "config": self.config, "what": what, "detail": str(detail)[:2000],
            "case": jsonable(self.case), "extra": jsonable(extra) if extra is not None else None,
            "seed": self.seed, "tier": self.tier, "worker": self.worker, "case_index": self.case_index,
            # what a replay needs to present the very same objects: typed case + the counters the representation
            # choices (Ctx.trains, vary_interval, vary_indices, read-only freezing) are derived from
            "case_typed": typed_encode(self.case), "evals0": self.evals, "cut_calls0": getattr(self, "case_cut0", 0),
        })

    def expect(self, cond, what, detail=None, extra=None):
        if not cond:
            self.violation(what, detail if detail is not None else what, extra)
        return bool(cond)

    def close(self, a, b, what, detail=None, rel=1e-9, absl=None):
        ok = tol_close(a, b, rel, absl)
        if not ok:
            self.violation(what, "%s: got %r expected %r" % (detail or what, float(a), float(b)))
        return ok

    # ------------------------------------------------------------------ calling the code under test
    def _snap(self, objs):
        snaps = []
        ps = self.ps
        seen = set()

        def visit(o, path):
            if id(o) in seen:
                return
            if isinstance(o, ps.SpikeTrain):
                seen.add(id(o))
                sp = o.spikes
                snaps.append((path, o, "st", id(sp), sp.tobytes() if isinstance(sp, np.ndarray) else repr(sp),
                              getattr(sp, "dtype", None), o.t_start, o.t_end))
            elif isinstance(o, (ps.PieceWiseConstFunc, ps.PieceWiseLinFunc, ps.DiscreteFunc)):
                seen.add(id(o))
                names = [n for n in ("x", "y", "y1", "y2", "mp") if hasattr(o, n)]
                snaps.append((path, o, "fn", tuple((n, id(getattr(o, n)), np.asarray(getattr(o, n)).tobytes(),
                                                     np.asarray(getattr(o, n)).dtype) for n in names)))
            elif isinstance(o, np.ndarray):
                seen.add(id(o))
                snaps.append((path, o, "arr", o.tobytes(), o.dtype, o.shape))
            elif isinstance(o, (list, tuple)):
                seen.add(id(o))
                snaps.append((path, o, "seq", len(o), tuple(id(e) for e in o)))
                for k, e in enumerate(o):
                    visit(e, "%s[%d]" % (path, k))
            elif isinstance(o, dict):
                for k, e in o.items():
                    visit(e, "%s[%r]" % (path, k))
        for k, o in enumerate(objs):
            visit(o, "arg%d" % k)
        return snaps

    def _check_snap(self, snaps, fname, skip_first=False):
        for s in snaps:
            path, o, kind = s[0], s[1], s[2]
            if skip_first and path == "arg0":
                continue
            self.guard_checks += 1
            if kind == "st":
                sp = o.spikes
                now = sp.tobytes() if isinstance(sp, np.ndarray) else repr(sp)
                if id(sp) != s[3] or now != s[4] or getattr(sp, "dtype", None) != s[5] \
                        or o.t_start != s[6] or o.t_end != s[7]:
                    self.violation("input-modified:%s" % fname,
                                   "%s: input spike train %s changed by the call (spikes/edges/array identity)"
                                   % (fname, path))
            elif kind == "fn":
                for (n, ident, b, dt) in s[3]:
                    cur = getattr(o, n)
                    if id(cur) != ident or np.asarray(cur).tobytes() != b or np.asarray(cur).dtype != dt:
                        self.violation("operand-modified:%s" % fname,
                                       "%s: operand %s.%s changed by the call" % (fname, path, n))
            elif kind == "arr":
                if o.tobytes() != s[3] or o.dtype != s[4] or o.shape != s[5]:
                    self.violation("input-modified:%s" % fname, "%s: input array %s changed" % (fname, path))
            elif kind == "seq":
                if len(o) != s[3] or tuple(id(e) for e in o) != s[4]:
                    self.violation("input-modified:%s" % fname, "%s: input list %s changed" % (fname, path))

    def call(self, fn, *args, **kw):
        """call a public function of the code under test; record exceptions as violations; guard inputs (M2).
        special kwargs: _name, _allow (exception classes that are expected results and are returned as values),
        _mutates_self (method: first arg is the receiver and may change), _readonly (freeze input arrays)"""
        name = kw.pop("_name", None) or getattr(fn, "__qualname__", None) or getattr(fn, "__name__", repr(fn))
        allow = kw.pop("_allow", ())
        skip_first = kw.pop("_mutates_self", False)
        readonly = kw.pop("_readonly", None)
        repeat = kw.pop("_repeat", True)
        if kw.get("interval") is not None:
            kw["interval"] = self.vary_interval(kw["interval"])
        guard_objs = list(args) + list(kw.values())
        if getattr(fn, "__self__", None) is not None and not skip_first:
            guard_objs.append(fn.__self__)
        snaps = self._snap(guard_objs)
        frozen = []
        if readonly is None:
            readonly = (self.cut_calls % 3 == 0)
        if readonly:
            self.readonly_calls += 1
            for s in snaps:
                if s[2] == "st" and isinstance(s[1].spikes, np.ndarray) and s[1].spikes.flags.writeable:
                    s[1].spikes.flags.writeable = False
                    frozen.append(s[1].spikes)
        self.cut_calls += 1
        try:
            with contextlib.redirect_stdout(env.SINK):
                res = fn(*args, **kw)
        except allow as e:
            res = e
        except (CaseTimeout, LineBudgetExceeded, KeyboardInterrupt):
            raise
        except ContractBroken as e:
            self.violation("contract:%s" % (e.args[0] if e.args else "?"), "%s: %s" % (name, e))
            raise CutFailed(name)
        except BaseException as e:
            self.cut_exceptions += 1
            tb = traceback.format_exc(limit=-6)
            self.violation("exception:%s:%s" % (name, type(e).__name__),
                           "%s raised %s: %s\n%s" % (name, type(e).__name__, e, tb))
            raise CutFailed(name)
        finally:
            for a in frozen:
                a.flags.writeable = True
        self._check_snap(snaps, name, skip_first=False)
        # M7 repeat monitor: every 13th call is issued a second time with the same arguments; the result must be the
        # same (state leaking between calls, caches keyed on the wrong thing, uninitialised memory all show up here)
        if repeat and self.cut_calls % 13 == 0 and not isinstance(res, BaseException):
            try:
                with contextlib.redirect_stdout(env.SINK):
                    res2 = fn(*args, **kw)
                self.repeat_checks += 1
                d = _same_result(self.ps, res, res2)
                if d:
                    self.violation("result-changes-on-repeat:%s" % name, "%s called twice with the same arguments gives different results: %s" % (name, d))
            except (CaseTimeout, LineBudgetExceeded, KeyboardInterrupt):
                raise
            except BaseException as e:
                self.violation("exception-on-repeat:%s:%s" % (name, type(e).__name__), "%s raised %r when called a second time with the same arguments" % (name, e))
        return res

    def mcall(self, obj, meth, *args, **kw):
        """call a mutating method (add / mul_scalar): receiver may change, other operands must not"""
        name = kw.pop("_name", None) or "%s.%s" % (type(obj).__name__, meth)
        allow = kw.pop("_allow", ())
        guard = kw.pop("_guard", True)
        snaps = self._snap([a for a in list(args) + list(kw.values()) if a is not obj]) if guard else []
        self.cut_calls += 1
        try:
            with contextlib.redirect_stdout(env.SINK):
                res = getattr(obj, meth)(*args, **kw)
        except allow as e:
            res = e
        except (CaseTimeout, LineBudgetExceeded, KeyboardInterrupt):
            raise
        except ContractBroken as e:
            self.violation("contract:%s" % (e.args[0] if e.args else "?"), "%s: %s" % (name, e))
            raise CutFailed(name)
        except BaseException as e:
            self.cut_exceptions += 1
            tb = traceback.format_exc(limit=-6)
            self.violation("exception:%s:%s" % (name, type(e).__name__),
                           "%s raised %s: %s\n%s" % (name, type(e).__name__, e, tb))
            raise CutFailed(name)
        self._check_snap(snaps, name)
        return res

    # ------------------------------------------------------------------ helpers to build inputs
    def vary_interval(self, iv):
        """the same averaging interval in the forms users write: tuple / list, end points as python float, python int
        (whole values), numpy float64 / int64 scalars; a list of intervals as list / tuple of lists / tuples.  The numeric
        values never change.  (ndarray intervals are rejected by the documented Sequence assertion: not generated.)"""
        n = self.cut_calls

        def num(v, j):
            if isinstance(v, (bool, np.bool_)) or not isinstance(v, (int, float, np.floating, np.integer)):
                return v
            f = float(v)
            m = (n + j) % 7
            if m == 1:
                return np.float64(f)
            if f.is_integer() and abs(f) < 1e9:
                if m == 2:
                    return int(f)
                if m == 3:
                    return np.int64(f)
            return f

        def one(pair, j):
            q = [num(pair[0], j), num(pair[1], j + 3)]
            return tuple(q) if (n + j) % 2 else q
        try:
            if isinstance(iv[0], (list, tuple)):
                self.counters["repr_interval_list_of_pairs"] += 1
                out = [one(pr, j) for j, pr in enumerate(iv)]
                return tuple(out) if n % 3 == 0 else out
            out = one(iv, 0)
        except Exception:
            return iv
        kinds = {type(out[0]).__name__, type(out[1]).__name__}
        if kinds - {"float"}:
            self.counters["repr_interval_nonfloat_ends"] += 1
        return out

    def trains(self, case, which=None):
        """build SpikeTrain objects; the *representation* of the constructor arguments is varied deterministically
        (float array / python list / tuple / whole numbers as python ints; edges as list / tuple / array)"""
        ps = self.ps
        tr = case["trains"] if which is None else [case["trains"][k] for k in which]
        out = []
        for k, s in enumerate(tr):
            if self.evals % 2 == 0 and s:
                # a train listed twice is, half of the time, literally the same object (users write [a, a, b])
                same = [q for q in range(k) if tr[q] == s]
                if same:
                    out.append(out[same[0]])
                    self.counters["same_object_listed_twice"] += 1
                    continue
            v = (self.evals + k) % 9
            whole = bool(s) and all(float(t).is_integer() and abs(t) < 1e9 for t in s)
            if v == 5 and len(s) >= 2:
                # a strided (non-contiguous) view, e.g. one column of a 2-d array of recordings
                spikes = np.repeat(np.array(s, dtype=float), 2)[::2]
                self.counters["repr_spikes_strided_view"] += 1
            elif v == 6 and whole:
                spikes = np.array([int(t) for t in s], dtype=np.int64)
                self.counters["repr_spikes_int64_array"] += 1
            elif v == 7 and s and all(float(np.float32(t)) == float(t) for t in s):
                spikes = np.array(s, dtype=np.float32)
                self.counters["repr_spikes_float32_array"] += 1
            elif v == 8 and len(s) >= 2:
                # a reversed view of a descending array (negative stride), ascending values
                spikes = np.array(s[::-1], dtype=float)[::-1]
                self.counters["repr_spikes_negative_stride"] += 1
            elif v == 2:
                spikes = [float(t) for t in s]
                self.counters["repr_spikes_python_list"] += 1
            elif v == 3 and s and all(float(t).is_integer() and abs(t) < 1e9 for t in s):
                spikes = [int(t) for t in s]
                self.counters["repr_spikes_python_ints"] += 1
            elif v == 4:
                spikes = tuple(float(t) for t in s)
                self.counters["repr_spikes_tuple"] += 1
            else:
                spikes = np.array(s, dtype=float)
            e = (self.evals + 2 * k) % 5
            ts_, te_ = case["ts"], case["te"]
            if e == 3 and ts_ == 0:
                edges = te_            # documented: a single number T1 means [0, T1]
                if (self.evals + k) % 2:
                    edges = np.float64(te_)          # ... e.g. data.max()
                    if float(te_).is_integer() and abs(te_) < 1e9 and (self.evals + k) % 4 == 1:
                        edges = np.int64(te_)
                    self.counters["repr_edges_scalar_numpy"] += 1
                self.counters["repr_edges_scalar"] += 1
            elif e == 4:
                edges = [np.float64(ts_), np.float64(te_)]
                if float(ts_).is_integer() and float(te_).is_integer() and abs(ts_) < 1e9 and abs(te_) < 1e9:
                    edges = (int(ts_), np.int64(te_))
                self.counters["repr_edges_numpy_scalars"] += 1
            else:
                edges = [ts_, te_] if e == 0 else (ts_, te_) if e == 1 else np.array([ts_, te_])
            try:
                st = ps.SpikeTrain(spikes, edges)
            except (CaseTimeout, LineBudgetExceeded, KeyboardInterrupt):
                raise
            except BaseException as e_:
                # building a valid train in one of the documented forms must not fail
                self.cut_exceptions += 1
                self.violation("exception:SpikeTrain():%s" % type(e_).__name__,
                               "SpikeTrain(%s %s, edges=%r) raised %s: %s" % (type(spikes).__name__, short(list(spikes)), edges,
                                                                           type(e_).__name__, e_))
                raise CutFailed("SpikeTrain")
            if (self.evals + 3 * k) % 11 == 0 and len(s) >= 2 and isinstance(st.spikes, np.ndarray):
                # users also assign `.spikes` (the documented attribute): a float64 array that happens to be a strided view
                st.spikes = np.repeat(np.array(s, dtype=float), 2)[::2]
                self.counters["repr_spikes_assigned_view"] += 1
            out.append(st)
        return out


# ---------------------------------------------------------------------------------------------- watchdog
def _alarm_handler(signum, frame):
    raise CaseTimeout()


def run_with_line_budget(fn, budget):
    """re-run fn under a line-event budget (bounded progress, independent of machine load)"""
    n = [0]

    def tracer(frame, event, arg):
        if event == "line":
            n[0] += 1
            if n[0] > budget:
                raise LineBudgetExceeded()
        return tracer
    sys.settrace(tracer)
    try:
        fn()
        return True, n[0]
    except LineBudgetExceeded:
        return False, n[0]
    except CutFailed:
        return True, n[0]
    finally:
        sys.settrace(None)


def case_size(case):
    n = 10
    try:
        for s in case.get("trains", []):
            n += len(s)
        for f in case.get("funcs", []):
            n += len(f.get("x", []))
        n += len(case.get("ops", [])) * 4
    except Exception:
        pass
    return n


def run_cases(prop, ctx, cases, soft_deadline, case_timeout=60):
    """drive prop.check over cases; returns dict(truncated=bool)"""
    signal.signal(signal.SIGALRM, _alarm_handler)
    truncated = False
    t0 = time.time()
    for idx, case in enumerate(cases):
        if time.time() - t0 > soft_deadline:
            truncated = True
            break
        ctx.case = case
        ctx.case_index = idx
        ctx.evals += 1
        ctx.case_cut0 = ctx.cut_calls
        signal.setitimer(signal.ITIMER_REAL, case_timeout)
        try:
            prop.check(case, ctx)
        except CutFailed:
            pass
        except (KeyboardInterrupt, SystemExit, MemoryError):
            raise
        except Exception as e:
            # the oracle itself tripped (typically over a malformed object handed back by the code under test):
            # neither "held" nor "violated" for this case; the other cases still run
            signal.setitimer(signal.ITIMER_REAL, 0)
            ctx.oracle_errors = getattr(ctx, "oracle_errors", 0) + 1
            if ctx.oracle_errors <= 3:
                import traceback
                tb = traceback.extract_tb(e.__traceback__)[-1]
                ctx.inconclusive.append("case %d: oracle error %s: %s at %s:%d" % (
                    idx, type(e).__name__, str(e)[:160], tb.filename.rsplit("/", 1)[-1], tb.lineno))
        except CaseTimeout:
            signal.setitimer(signal.ITIMER_REAL, 0)
            # bounded-progress decision: re-run this one case under a line-event budget
            budget = 20000 * case_size(case) * getattr(prop, "line_budget_factor", 1)
            before = len(ctx.violations)

            def again():
                prop.check(case, ctx)
            try:
                ok, used = run_with_line_budget(again, budget)
            except BaseException as e:      # harness trouble during the re-run
                ok, used = True, -1
            del ctx.violations[before:]
            if not ok:
                ctx.violation("no-progress", "call did not return within %d line events "
                              "(bounded-progress budget for a case of size %d)" % (budget, case_size(case)))
                case_timeout = min(case_timeout, 5)      # a proven hang: do not wait a minute for each further one
            else:
                ctx.inconclusive.append("case %d hit the %ds wall-clock watchdog but finished within the "
                                        "line budget (%d events)" % (idx, case_timeout, used))
        finally:
            signal.setitimer(signal.ITIMER_REAL, 0)
    ctx.case = None
    return {"truncated": truncated}


def worker_result(prop, ctx, info, wall):
    from . import monitors
    return {
        "property": ctx.prop_id, "config": ctx.config, "tier": ctx.tier, "seed": ctx.seed, "worker": ctx.worker,
        "evaluations": ctx.evals, "cut_calls": ctx.cut_calls, "cut_exceptions": ctx.cut_exceptions,
        "guard_checks": ctx.guard_checks, "readonly_calls": ctx.readonly_calls, "repeat_checks": ctx.repeat_checks,
        "words": sorted(ctx.words), "counters": dict(ctx.counters), "violations": ctx.violations,
        "samples": ctx.samples, "inconclusive": ctx.inconclusive, "truncated": info.get("truncated", False),
        "contracts": monitors.evaluation_counts(), "stdout_suppressed": env.SINK.n, "wall_s": wall,
        "emu_stats": monitors.emu_stats(), "arms": monitors.arm_report(), "progress": monitors.progress_report(),
        "poison": env.poison_stats(),
    }
