"""Always-on monitors applied from the harness (no edits to /repo):

M1  icontract class invariants on PieceWiseConstFunc / PieceWiseLinFunc / DiscreteFunc
M3  icontract post-conditions on the backend kernels (module attributes are resolved at call time by the
    front ends, so patched attributes are what actually runs)
M4  branch-arm observer (sys.monitoring LINE events) - evidence only, never a verdict
"""
import ast
import collections
import inspect
import os
import sys

import numpy as np

from . import env
from .harness import ContractBroken

EVALS = collections.Counter()
NOT_ATTACHED = []
_installed = {}


def evaluation_counts():
    d = dict(EVALS)
    for n in NOT_ATTACHED:
        d["not-attachable:" + n] = 1
    return d


def emu_stats():
    if env.config() == "emulated":
        from . import pyxemu
        return dict(pyxemu.STATS)
    return {}


# ------------------------------------------------------------------------------------------------ M1
def _arr(a):
    return isinstance(a, np.ndarray) or type(a).__name__ == "MV"


def _np(a):
    return np.asarray(a)


def _err(name):
    def make(self):
        detail = ""
        try:
            parts = []
            for n in ("x", "y", "y1", "y2", "mp"):
                if hasattr(self, n):
                    parts.append("%s=%s" % (n, np.array2string(_np(getattr(self, n)), threshold=12, precision=17)))
            detail = "; ".join(parts)
        except Exception:
            pass
        return ContractBroken(name, detail)
    return make


def inv_pwc_shape(self):
    EVALS["inv:PieceWiseConstFunc"] += 1
    x, y = _np(self.x), _np(self.y)
    return x.ndim == 1 and y.ndim == 1 and len(x) == len(y) + 1 and len(y) >= 1


def inv_pwc_monotone(self):
    x = _np(self.x)
    return bool(np.all(np.diff(x) > 0))


def inv_pwc_finite(self):
    return bool(np.all(np.isfinite(_np(self.x)))) and bool(np.all(np.isfinite(_np(self.y).astype(float))))


def inv_pwl_shape(self):
    EVALS["inv:PieceWiseLinFunc"] += 1
    x, y1, y2 = _np(self.x), _np(self.y1), _np(self.y2)
    return x.ndim == 1 and len(x) == len(y1) + 1 and len(y1) == len(y2) and len(y1) >= 1


def inv_pwl_monotone(self):
    return bool(np.all(np.diff(_np(self.x)) > 0))


def inv_pwl_finite(self):
    return bool(np.all(np.isfinite(_np(self.x)))) and bool(np.all(np.isfinite(_np(self.y1).astype(float)))) \
        and bool(np.all(np.isfinite(_np(self.y2).astype(float))))


def inv_df_shape(self):
    EVALS["inv:DiscreteFunc"] += 1
    x, y, mp = _np(self.x), _np(self.y), _np(self.mp)
    return x.ndim == 1 and len(x) == len(y) == len(mp) and len(x) >= 2


def inv_df_monotone(self):
    x = _np(self.x)
    if len(x) <= 2:
        return bool(x[0] <= x[-1])
    # interior events strictly increasing; edge entries may coincide with the first/last event
    return bool(np.all(np.diff(x[1:-1]) > 0)) and bool(x[0] <= x[1]) and bool(x[-2] <= x[-1])


def inv_df_finite(self):
    return bool(np.all(np.isfinite(_np(self.x)))) and bool(np.all(np.isfinite(_np(self.y).astype(float)))) \
        and bool(np.all(np.isfinite(_np(self.mp).astype(float))))


def inv_df_mp(self):
    return bool(np.all(_np(self.mp) >= 1))


def install_class_invariants(ps, strict_monotone=True):
    import icontract
    if _installed.get("M1"):
        return
    PWC, PWL, DF = ps.PieceWiseConstFunc, ps.PieceWiseLinFunc, ps.DiscreteFunc
    icontract.invariant(inv_pwc_shape, error=_err("PieceWiseConstFunc:len(x)==len(y)+1"))(PWC)
    icontract.invariant(inv_pwc_finite, error=_err("PieceWiseConstFunc:finite"))(PWC)
    icontract.invariant(inv_pwl_shape, error=_err("PieceWiseLinFunc:len(x)==len(y1)+1==len(y2)+1"))(PWL)
    icontract.invariant(inv_pwl_finite, error=_err("PieceWiseLinFunc:finite"))(PWL)
    icontract.invariant(inv_df_shape, error=_err("DiscreteFunc:len(x)==len(y)==len(mp)>=2"))(DF)
    icontract.invariant(inv_df_finite, error=_err("DiscreteFunc:finite"))(DF)
    if strict_monotone:
        icontract.invariant(inv_pwc_monotone, error=_err("PieceWiseConstFunc:x strictly increasing"))(PWC)
        icontract.invariant(inv_pwl_monotone, error=_err("PieceWiseLinFunc:x strictly increasing"))(PWL)
        icontract.invariant(inv_df_monotone, error=_err("DiscreteFunc:x non-decreasing"))(DF)
        icontract.invariant(inv_df_mp, error=_err("DiscreteFunc:mp>=1"))(DF)
    _installed["M1"] = True


# ------------------------------------------------------------------------------------------------ M3
def _kerr(name):
    def make(result):
        return ContractBroken(name, "result=%r" % (result,))
    return make


def _tauerr(name):
    def make(i, j, max_tau, result):
        return ContractBroken(name, "get_tau(i=%r, j=%r, limit=%r) returned %r > limit/2" % (i, j, max_tau, result))
    return make


def post_isi(t_start, t_end, result):
    EVALS["post:isi_kernel"] += 1
    x, y = _np(result[0]), _np(result[1])
    return (len(x) == len(y) + 1 and x[0] == t_start and x[-1] == t_end and bool(np.all(np.diff(x) > 0))
            and bool(np.all((y >= 0) & (y <= 1))))


def post_spike(t_start, t_end, result):
    EVALS["post:spike_kernel"] += 1
    x, y1, y2 = _np(result[0]), _np(result[1]), _np(result[2])
    return (len(x) == len(y1) + 1 == len(y2) + 1 and x[0] == t_start and x[-1] == t_end
            and bool(np.all(np.diff(x) > 0)) and bool(np.all(np.isfinite(y1))) and bool(np.all(np.isfinite(y2)))
            and bool(np.all(y1 >= 0)) and bool(np.all(y2 >= 0)))


def post_tau(i, j, max_tau, result):
    EVALS["post:get_tau"] += 1
    # max_tau here is the effective limit min(T, 2*user_max_tau); the window never exceeds half of it
    return result >= 0 and result <= max_tau / 2.0 * (1 + 1e-15)


def post_coinc(t_start, t_end, result):
    EVALS["post:coincidence_kernel"] += 1
    x, c, mp = _np(result[0]), _np(result[1]), _np(result[2])
    if not (len(x) == len(c) == len(mp) and len(x) >= 2 and x[0] == t_start and x[-1] == t_end):
        return False
    return bool(np.all((c >= 0) & (c <= mp))) and bool(np.all((mp == 1) | (mp == 2)))


def post_order(t_start, t_end, result):
    EVALS["post:order_kernel"] += 1
    x, a, mp = _np(result[0]), _np(result[1]), _np(result[2])
    if not (len(x) == len(a) == len(mp) and len(x) >= 2 and x[0] == t_start and x[-1] == t_end):
        return False
    return bool(np.all(np.abs(a) <= mp)) and bool(np.all((mp == 1) | (mp == 2)))


def post_single(spikes1, result):
    EVALS["post:coincidence_single_kernel"] += 1
    c = _np(result)
    return len(c) == len(spikes1) and bool(np.all((c == 0) | (c == 1)))


def post_dirprof(spikes1, spikes2, result):
    EVALS["post:directionality_kernel"] += 1
    d1, d2 = _np(result[0]), _np(result[1])
    return (len(d1) == len(spikes1) and len(d2) == len(spikes2)
            and bool(np.all(np.isin(d1, (-1, 0, 1)))) and bool(np.all(np.isin(d2, (-1, 0, 1))))
            and float(np.sum(d1)) == -float(np.sum(d2)))


def install_kernel_contracts(ps):
    """wrap the kernels that the front ends will actually resolve in this configuration"""
    import icontract
    if _installed.get("M3"):
        return
    import pyspike.cython.python_backend as pb
    import pyspike.cython.directionality_python_backend as dpb

    def wrap(mod, name, cond, label):
        """attach a post-condition if the routine exists and has the parameters the condition needs; a refactoring that
        renames an internal routine or its parameters makes the contract unattachable (recorded), never an alarm"""
        fn = getattr(mod, name, None)
        if fn is None:
            NOT_ATTACHED.append("%s.%s (absent)" % (mod.__name__, name))
            return None
        try:
            need = [p_ for p_ in inspect.signature(cond).parameters if p_ != "result"]
            have = inspect.signature(fn).parameters
            if any(p_ not in have for p_ in need):
                NOT_ATTACHED.append("%s.%s (parameters renamed)" % (mod.__name__, name))
                return None
            w = icontract.ensure(cond, error=_kerr(label) if cond is not post_tau else _tauerr(label))(fn)
            setattr(mod, name, w)
            return w
        except Exception as e:          # pragma: no cover
            NOT_ATTACHED.append("%s.%s (%s)" % (mod.__name__, name, type(e).__name__))
            return None
    wrap(pb, "isi_distance_python", post_isi, "isi kernel: axis from t_start to t_end strictly increasing, 0<=y<=1")
    wrap(pb, "spike_distance_python", post_spike, "spike kernel: axis/limits well-formed, finite, >=0")
    wrap(pb, "coincidence_python", post_coinc, "coincidence kernel: 0<=c<=mp, mp in {1,2}")
    wrap(pb, "coincidence_single_python", post_single, "single-spike coincidence kernel: indicator per spike")
    wrap(dpb, "spike_train_order_profile_python", post_order, "order kernel: |a|<=mp, mp in {1,2}")
    wrap(dpb, "spike_directionality_profile_python", post_dirprof,
         "directionality kernel: values in {-1,0,1}, sum d1 == -sum d2")
    tau_wrapped = wrap(pb, "get_tau", post_tau, "get_tau: 0<=tau<=limit/2")
    if tau_wrapped is not None and getattr(dpb, "get_tau", None) is not None:
        dpb.get_tau = tau_wrapped
    emu = env.emu_modules()
    if emu:
        wrap(emu["cython_profiles"], "isi_profile_cython", post_isi, "isi kernel (pyx)")
        wrap(emu["cython_profiles"], "spike_profile_cython", post_spike, "spike kernel (pyx)")
        wrap(emu["cython_profiles"], "coincidence_profile_cython", post_coinc, "coincidence kernel (pyx)")
        wrap(emu["cython_profiles"], "coincidence_single_profile_cython", post_single, "single coincidence kernel (pyx)")
        wrap(emu["cython_directionality"], "spike_train_order_profile_cython", post_order, "order kernel (pyx)")
        wrap(emu["cython_directionality"], "spike_directionality_profiles_cython", post_dirprof,
             "directionality kernel (pyx)")
        gt = wrap(emu["cython_get_tau"], "get_tau", post_tau, "get_tau (pyx): 0<=tau<=limit/2")
        if gt is not None:
            for n in ("cython_profiles", "cython_distances", "cython_directionality"):
                emu[n].get_tau = gt
    _installed["M3"] = True


# ------------------------------------------------------------------------------------------------ M4
_ARMS = {}       # (file, line) -> [label, hits]
_arm_state = {"on": False}


def _arm_lines(path, funcs=None):
    """first line of every if/elif/else/while/for arm in the given file (optionally only inside funcs)"""
    try:
        with open(path) as f:
            src = f.read()
        if path.endswith(".pyx"):
            from . import pyxemu
            src = pyxemu.translate(src)      # same text (and line numbers) the emulated code objects were compiled from
        tree = ast.parse(src)
    except Exception:
        return {}
    lines = src.split("\n")
    out = {}

    def visit(node, fname):
        for child in ast.iter_child_nodes(node):
            name = fname
            if isinstance(child, (ast.FunctionDef, ast.AsyncFunctionDef)):
                name = child.name
            if isinstance(child, (ast.If, ast.While, ast.For)) and (funcs is None or fname in funcs):
                for part, body in (("then" if isinstance(child, ast.If) else "body", child.body),
                                   ("else", child.orelse)):
                    if body and not (part == "else" and len(body) == 1 and isinstance(body[0], ast.If)):
                        ln = body[0].lineno
                        out[ln] = "%s:%d %s %s | %s" % (fname, child.lineno, type(child).__name__.lower(), part,
                                                        lines[child.lineno - 1].strip()[:70])
            visit(child, name)
    visit(tree, "<module>")
    return out


def install_arm_observer(files):
    """files: list of (path, funcs or None).  Needs Python 3.12 sys.monitoring."""
    if not hasattr(sys, "monitoring") or _arm_state["on"]:
        return False
    mon = sys.monitoring
    tool = 4
    try:
        mon.use_tool_id(tool, "vp-arms")
    except ValueError:
        return False
    wanted = {}
    for path, funcs in files:
        rp = os.path.realpath(path)
        for ln, label in _arm_lines(rp, funcs).items():
            wanted[(rp, ln)] = label
            _ARMS[(rp, ln)] = [label, 0]
    watched_files = {p for (p, _) in wanted}

    def on_line(code, line):
        fn = code.co_filename
        if fn not in watched_files:
            rp = os.path.realpath(fn)
            if rp not in watched_files:
                return mon.DISABLE
            fn = rp
        ent = _ARMS.get((fn, line))
        if ent is None:
            return mon.DISABLE
        ent[1] += 1
        if ent[1] >= 1000:
            return mon.DISABLE
        return None
    mon.register_callback(tool, mon.events.LINE, on_line)
    mon.set_events(tool, mon.events.LINE)
    _arm_state["on"] = True
    return True


def arm_report():
    if not _ARMS:
        return {}
    reached = sorted(v[0] for v in _ARMS.values() if v[1] > 0)
    missed = sorted(v[0] for v in _ARMS.values() if v[1] == 0)
    return {"arms_total": len(_ARMS), "arms_reached": len(reached), "never_reached": missed[:60]}


# ------------------------------------------------------------------------------------------------ M6
# Online checker of a trace specification on live frames: every cursor-driven `while` scan of the backend kernels must
# make progress - at each visit of the loop body the cursor variables are component-wise non-decreasing and their sum is
# strictly larger than at the previous visit of the same activation.  (A scan whose cursor stops is a hang; one whose
# cursor moves backwards re-reads input.)  Implemented with sys.monitoring local LINE/PY_START events on the kernels' code
# objects only; the callback reads the cursors from the running frame.
_PROGRESS = {"installed": False, "loops": {}, "state": {}, "events": 0, "frames": 0}


def _loop_specs(func_node):
    """for each while loop of a function: (first body line, cursor names) where cursors are names that occur in the loop
    test and are incremented (+=) somewhere in the loop body"""
    out = []
    for node in ast.walk(func_node):
        if isinstance(node, ast.While):
            test_names = {n.id for n in ast.walk(node.test) if isinstance(n, ast.Name)}
            inc = set()
            for sub in ast.walk(node):
                if isinstance(sub, ast.AugAssign) and isinstance(sub.op, ast.Add) and isinstance(sub.target, ast.Name):
                    inc.add(sub.target.id)
            cur = sorted(test_names & inc)
            if cur and node.body:
                out.append((node.body[0].lineno, tuple(cur)))
    return out


def _progress_error(name, line, prev, now, cursors):
    return ContractBroken("cursor-progress:%s" % name,
                          "scan in %s (line %d) made no progress: cursors %s went %r -> %r" % (name, line, cursors, prev, now))


def install_progress_monitor(ps):
    if _PROGRESS["installed"] or not hasattr(sys, "monitoring"):
        return False
    mon = sys.monitoring
    tool = 5
    try:
        mon.use_tool_id(tool, "vp-progress")
    except ValueError:
        return False
    import pyspike.cython.python_backend as pb
    import pyspike.cython.directionality_python_backend as dpb
    targets = []
    for mod in (pb, dpb):
        for name, fn in vars(mod).items():
            f = getattr(fn, "__wrapped__", fn)
            while hasattr(f, "__wrapped__"):
                f = f.__wrapped__
            if inspect.isfunction(f) and f.__module__ == mod.__name__:
                targets.append((mod.__file__, f, None))
    emu = env.emu_modules()
    if emu:
        from . import pyxemu
        for mname, mod in emu.items():
            path = mod.__file__.replace(" [emulated]", "")
            try:
                src = pyxemu.translate(open(path).read())
            except Exception:
                continue
            for name, fn in vars(mod).items():
                f = fn
                while hasattr(f, "__wrapped__"):
                    f = f.__wrapped__
                if inspect.isfunction(f) and f.__code__.co_filename == path:
                    targets.append((path, f, src))
    trees = {}
    for path, f, src in targets:
        key = path
        if key not in trees:
            try:
                text = src if src is not None else open(path).read()
                trees[key] = ast.parse(text)
            except Exception:
                trees[key] = None
        tree = trees[key]
        if tree is None:
            continue
        for node in ast.walk(tree):
            if isinstance(node, ast.FunctionDef) and node.name == f.__code__.co_name and node.lineno == f.__code__.co_firstlineno:
                specs = _loop_specs(node)
                if specs:
                    code = f.__code__
                    for line, cursors in specs:
                        _PROGRESS["loops"][(code, line)] = (f.__code__.co_name, cursors)
                    mon.set_local_events(tool, code, mon.events.LINE | mon.events.PY_START)
    state = _PROGRESS["state"]
    loops = _PROGRESS["loops"]

    def on_start(code, offset):
        fr = sys._getframe(1)
        for k in [k for k in state if k[0] == id(fr)]:
            del state[k]
        _PROGRESS["frames"] += 1

    def on_line(code, line):
        spec = loops.get((code, line))
        if spec is None:
            return mon.DISABLE
        fr = sys._getframe(1)
        loc = fr.f_locals
        name, cursors = spec
        try:
            now = tuple(int(loc[c]) for c in cursors)
        except Exception:
            return None
        _PROGRESS["events"] += 1
        key = (id(fr), line)
        prev = state.get(key)
        state[key] = now
        if prev is not None:
            if any(a < b for a, b in zip(now, prev)) or sum(now) <= sum(prev):
                raise _progress_error(name, line, prev, now, cursors)
        return None
    mon.register_callback(tool, mon.events.LINE, on_line)
    mon.register_callback(tool, mon.events.PY_START, on_start)
    _PROGRESS["installed"] = True
    return True


def progress_report():
    if not _PROGRESS["installed"]:
        return {}
    return {"monitored_loops": len(_PROGRESS["loops"]), "loop_iterations_observed": _PROGRESS["events"],
            "kernel_activations_observed": _PROGRESS["frames"]}
