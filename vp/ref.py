"""Exact-rational reference models, written from the property statements (never imports pyspike).

All inputs are floats; Fraction(float) is exact.  The models deliberately avoid two-cursor merge scans:
breakpoints come from set union, "the interval containing t" from linear search, coincidences from an
O(n*m) pairwise loop - so a bug in the implementation's scan logic cannot be mirrored here.
"""
from fractions import Fraction as F
import bisect


TINY = F(1, 10 ** 300)      # differences below this are lost to underflow in binary64: rounding-ambiguous


def fr(x):
    return F(float(x))


def frl(xs):
    return [F(float(x)) for x in xs]


def non_empty(s, ts, te):
    return list(s) if len(s) else [ts, te]


def breakpoints(s1, s2, ts, te):
    inner = sorted({t for t in list(s1) + list(s2) if ts < t < te})
    return [ts] + inner + [te]


def breakpoints_multi(trains, ts, te):
    inner = sorted({t for s in trains for t in s if ts < t < te})
    return [ts] + inner + [te]


# ---------------------------------------------------------------- ISI
def isi_len_at(s, ts, te, mid):
    """length of the train's ISI containing time mid (mid not on a spike); s = non-empty exact spikes"""
    n = len(s)
    if mid < s[0]:
        d = s[0] - ts
        return max(d, s[1] - s[0]) if n > 1 else d
    if mid > s[-1]:
        d = te - s[-1]
        return max(d, s[-1] - s[-2]) if n > 1 else d
    for k in range(n - 1):
        if s[k] < mid < s[k + 1]:
            return s[k + 1] - s[k]
    raise AssertionError("mid on a spike")


def isi_profile_ref(sp1, sp2, ts, te, MRTS=0):
    ts, te = fr(ts), fr(te)
    M = fr(MRTS)
    s1 = non_empty(frl(sp1), ts, te)
    s2 = non_empty(frl(sp2), ts, te)
    x = breakpoints(s1, s2, ts, te)
    y = []
    for k in range(len(x) - 1):
        mid = (x[k] + x[k + 1]) / 2
        v1 = isi_len_at(s1, ts, te, mid)
        v2 = isi_len_at(s2, ts, te, mid)
        y.append(abs(v1 - v2) / max(v1, v2, M))
    return x, y


# ---------------------------------------------------------------- SPIKE
def aux(s, ts, te):
    n = len(s)
    if n > 1:
        return min(ts, s[0] - (s[1] - s[0])), max(te, s[-1] + (s[-1] - s[-2]))
    return ts, te


def nearest(t, other, aux_o):
    return min(abs(t - u) for u in list(other) + list(aux_o))


def contrib(s, other, aux_o, ts, te, t):
    """(s_n(t), isi_n(t)) for a time t strictly inside a piece (never on a spike of either train)"""
    n = len(s)
    if t < s[0]:
        d = s[0] - ts
        isi = max(d, s[1] - s[0]) if n > 1 else d
        return nearest(s[0], other, aux_o), isi
    if t > s[-1]:
        d = te - s[-1]
        isi = max(d, s[-1] - s[-2]) if n > 1 else d
        return nearest(s[-1], other, aux_o), isi
    for k in range(n - 1):
        if s[k] <= t <= s[k + 1]:
            tp, tf = s[k], s[k + 1]
            isi = tf - tp
            dp = nearest(tp, other, aux_o)
            df = nearest(tf, other, aux_o)
            return (dp * (tf - t) + df * (t - tp)) / isi, isi
    raise AssertionError


def spike_at(s1, s2, ts, te, M, RI, t):
    a1 = aux(s1, ts, te)
    a2 = aux(s2, ts, te)
    c1, i1 = contrib(s1, s2, a2, ts, te, t)
    c2, i2 = contrib(s2, s1, a1, ts, te, t)
    mean = (i1 + i2) / 2
    lim = max(M, mean)
    if RI:
        return (c1 + c2) / 2 / lim
    return (c1 * i2 + c2 * i1) / 2 / (mean * lim)


def spike_profile_ref(sp1, sp2, ts, te, MRTS=0, RI=False):
    ts, te = fr(ts), fr(te)
    M = fr(MRTS)
    s1 = non_empty(frl(sp1), ts, te)
    s2 = non_empty(frl(sp2), ts, te)
    x = breakpoints(s1, s2, ts, te)
    y1 = []
    y2 = []
    for k in range(len(x) - 1):
        lo, hi = x[k], x[k + 1]
        # S is linear inside a piece -> evaluate at two interior points and extrapolate to the limits
        ta = lo + (hi - lo) / 3
        tb = lo + 2 * (hi - lo) / 3
        va = spike_at(s1, s2, ts, te, M, RI, ta)
        vb = spike_at(s1, s2, ts, te, M, RI, tb)
        slope = (vb - va) / (tb - ta)
        y1.append(va + slope * (lo - ta))
        y2.append(va + slope * (hi - ta))
    return x, y1, y2


def spike_value_ref(sp1, sp2, ts, te, MRTS, RI, t):
    """S(t) at a time strictly inside a piece"""
    ts, te = fr(ts), fr(te)
    s1 = non_empty(frl(sp1), ts, te)
    s2 = non_empty(frl(sp2), ts, te)
    return spike_at(s1, s2, ts, te, fr(MRTS), RI, fr(t))


# ---------------------------------------------------------------- coincidence window / SYNC / ORDER
def interp(a, b, t):
    return max(min(a, b), min(t, b))


def half_isis(s, T):
    """per spike (P/2, F/2) with T for a missing neighbour"""
    out = []
    n = len(s)
    for k in range(n):
        P = s[k] - s[k - 1] if k > 0 else T
        Fw = s[k + 1] - s[k] if k < n - 1 else T
        out.append((P / 2, Fw / 2))
    return out


def tau_from(h1, h2, a, b, mt, m4):
    (mP1, mF1) = h1
    (mP2, mF2) = h2
    if a <= b:
        tau = min(interp(mP1, mF1, m4), interp(mF2, mP2, m4))
    else:
        tau = min(interp(mF1, mP1, m4), interp(mP2, mF2, m4))
    if mt > 0:
        tau = min(tau, mt)
    return tau


def tau_ref(s1, s2, i, j, T, max_tau, M):
    h1 = half_isis(s1, T)[i]
    h2 = half_isis(s2, T)[j]
    return tau_from(h1, h2, s1[i], s2[j], max_tau, M / 4)


def coincidences_ref(sp1, sp2, ts, te, max_tau=0, MRTS=0, want_ties=False):
    """pairwise definition: returns c1[i], c2[j] (number of partners), pairs, and (optionally) tie info:
    ties = number of pairs with |a-b| == tau exactly; near = pairs where |a-b| and tau differ by a relative
    amount <= 2^-50 but are not equal (rounding-ambiguous on non-dyadic input)"""
    ts, te = fr(ts), fr(te)
    M = fr(MRTS)
    T = te - ts
    mt = fr(max_tau) if max_tau else F(0)
    s1 = frl(sp1)
    s2 = frl(sp2)
    H1 = half_isis(s1, T)
    H2 = half_isis(s2, T)
    m4 = M / 4
    c1 = [0] * len(s1)
    c2 = [0] * len(s2)
    pairs = []
    ties = 0
    near = []
    for i in range(len(s1)):
        a = s1[i]
        for j in range(len(s2)):
            b = s2[j]
            d = abs(a - b)
            tau = tau_from(H1[i], H2[j], a, b, mt, m4)
            if d < tau:
                c1[i] += 1
                c2[j] += 1
                pairs.append((i, j))
            if want_ties:
                if d == tau:
                    ties += 1
                elif tau > 0 and (abs(d - tau) <= tau / (1 << 48) or abs(d - tau) <= TINY):
                    near.append((i, j))
    if want_ties:
        return c1, c2, pairs, ties, near
    return c1, c2, pairs


def _events(sp1, v1, sp2, v2):
    ev = {}
    for t, c in zip(sp1, v1):
        e = ev.setdefault(float(t), [0, 0])
        e[0] += c
        e[1] += 1
    for t, c in zip(sp2, v2):
        e = ev.setdefault(float(t), [0, 0])
        e[0] += c
        e[1] += 1
    times = sorted(ev)
    return times, [ev[t][0] for t in times], [ev[t][1] for t in times]


def sync_profile_ref(sp1, sp2, ts, te, max_tau=0, MRTS=0):
    """returns x (with both edge entries), y/mp for the interior events only, c1, c2, pairs"""
    c1, c2, pairs = coincidences_ref(sp1, sp2, ts, te, max_tau, MRTS)
    times, y, mp = _events(sp1, c1, sp2, c2)
    x = [float(ts)] + times + [float(te)]
    return x, y, mp, c1, c2, pairs


def order_ref(sp1, sp2, ts, te, max_tau=0, MRTS=0):
    """order profile (interior events) + per-spike directionality values d1, d2"""
    c1, c2, pairs = coincidences_ref(sp1, sp2, ts, te, max_tau, MRTS)
    d1 = [0] * len(sp1)
    d2 = [0] * len(sp2)
    a1 = [0] * len(sp1)
    a2 = [0] * len(sp2)
    for i, j in pairs:
        if sp1[i] < sp2[j]:
            d1[i] += 1
            d2[j] -= 1
            a1[i] += 1
            a2[j] += 1
        elif sp1[i] > sp2[j]:
            d1[i] -= 1
            d2[j] += 1
            a1[i] -= 1
            a2[j] -= 1
    times, y, mp = _events(sp1, a1, sp2, a2)
    x = [float(ts)] + times + [float(te)]
    return x, y, mp, d1, d2


# ---------------------------------------------------------------- automatic threshold
def isi_pool_ref(sp, ts, te):
    """list of ISI lengths of one train per the C15 statement, plus the number of optional zero-length
    entries the statement leaves open (one-spike train sitting on an edge)"""
    ts, te = fr(ts), fr(te)
    s = frl(sp)
    n = len(s)
    if n == 0:
        return [te - ts], 0
    pool = []
    open_zero = 0
    if s[0] > ts:
        d = s[0] - ts
        pool.append(max(d, s[1] - s[0]) if n > 1 else d)
    elif n == 1:
        open_zero += 1
    for k in range(n - 1):
        pool.append(s[k + 1] - s[k])
    if s[-1] < te:
        d = te - s[-1]
        pool.append(max(d, s[-1] - s[-2]) if n > 1 else d)
    elif n == 1:
        open_zero += 1
    return pool, open_zero


def default_thresh_sq_ref(trains, ts, te):
    """set of admissible values of thresh**2 (exact); more than one only in the open corner"""
    pool = []
    zeros = 0
    for sp in trains:
        p, z = isi_pool_ref(sp, ts, te)
        pool += p
        zeros += z
    ss = sum(v * v for v in pool)
    out = []
    for z in range(zeros + 1):
        out.append(ss / (len(pool) + z))
    return out, zeros


# ---------------------------------------------------------------- exact integration of returned profiles
def integ_pwc(x, y, a, b):
    """exact integral of a piecewise-constant function given by float arrays over [a,b]"""
    X = frl(x)
    Y = frl(y)
    a = fr(a)
    b = fr(b)
    tot = F(0)
    for k in range(len(Y)):
        lo = max(X[k], a)
        hi = min(X[k + 1], b)
        if hi > lo:
            tot += (hi - lo) * Y[k]
    return tot


def integ_pwl(x, y1, y2, a, b):
    X = frl(x)
    Y1 = frl(y1)
    Y2 = frl(y2)
    a = fr(a)
    b = fr(b)
    tot = F(0)
    for k in range(len(Y1)):
        lo = max(X[k], a)
        hi = min(X[k + 1], b)
        if hi > lo:
            w = X[k + 1] - X[k]
            vlo = Y1[k] + (Y2[k] - Y1[k]) * (lo - X[k]) / w
            vhi = Y1[k] + (Y2[k] - Y1[k]) * (hi - X[k]) / w
            tot += (hi - lo) * (vlo + vhi) / 2
    return tot


def touched_mass_pwc(x, y, a, b):
    """sum |y_k| * width_k over pieces intersecting [a,b] (backward-error yardstick, floats are fine)"""
    tot = 0.0
    for k in range(len(y)):
        if x[k + 1] > a and x[k] < b:
            tot += abs(float(y[k])) * (float(x[k + 1]) - float(x[k]))
    return tot


def touched_mass_pwl(x, y1, y2, a, b):
    tot = 0.0
    for k in range(len(y1)):
        if x[k + 1] > a and x[k] < b:
            tot += max(abs(float(y1[k])), abs(float(y2[k]))) * (float(x[k + 1]) - float(x[k]))
    return tot


def discrete_sums(x, y, mp, a, b):
    """sum of y and mp over interior entries (index 1..n-2) with a < x < b; a,b None = all interior entries"""
    sy = F(0)
    sm = F(0)
    for k in range(1, len(x) - 1):
        if a is None or (float(a) < float(x[k]) < float(b)):
            sy += fr(y[k])
            sm += fr(mp[k])
    return sy, sm


# ---------------------------------------------------------------- function-class models (C09-C11)
class PWC(object):
    """exact piecewise-constant model: breakpoints X (Fractions) and piece values Y"""
    def __init__(self, x, y):
        self.X = frl(x)
        self.Y = frl(y)
        # A: per piece, the summed magnitudes of everything that was added up there (|c1*y1| + |c2*y2| + ...): the scale
        # against which the rounding error of that piece is judged (a huge value elsewhere must not excuse an error here)
        self.A = [abs(v) for v in self.Y]

    def copy(self):
        m = PWC([], [])
        m.X = list(self.X)
        m.Y = list(self.Y)
        m.A = list(self.A)
        return m

    def piece_mass(self, t):
        k = bisect.bisect_right(self.X, t) - 1
        return self.A[k]

    def piece_value(self, t):
        """value on the open piece containing t (t not a breakpoint)"""
        k = bisect.bisect_right(self.X, t) - 1
        return self.Y[k]

    def left(self, k):   # limit from the left at breakpoint k (k>=1)
        return self.Y[k - 1]

    def right(self, k):  # limit from the right at breakpoint k (k<=n-1)
        return self.Y[k]

    def add(self, o):
        X = sorted(set(self.X) | set(o.X))
        Y = []
        A = []
        for k in range(len(X) - 1):
            mid = (X[k] + X[k + 1]) / 2
            Y.append(self.piece_value(mid) + o.piece_value(mid))
            A.append(self.piece_mass(mid) + o.piece_mass(mid))
        self.X, self.Y, self.A = X, Y, A

    def mul(self, f):
        f = fr(f)
        self.Y = [v * f for v in self.Y]
        self.A = [v * abs(f) for v in self.A]

    def integral(self, a=None, b=None):
        a = self.X[0] if a is None else fr(a)
        b = self.X[-1] if b is None else fr(b)
        tot = F(0)
        for k in range(len(self.Y)):
            lo = max(self.X[k], a)
            hi = min(self.X[k + 1], b)
            if hi > lo:
                tot += (hi - lo) * self.Y[k]
        return tot

    def value(self, t):
        """evaluation rule of the statement: piece value; mean of limits at interior breakpoints; one-sided at ends"""
        t = fr(t)
        if t == self.X[0]:
            return self.Y[0]
        if t == self.X[-1]:
            return self.Y[-1]
        k = bisect.bisect_left(self.X, t)
        if self.X[k] == t:
            return (self.Y[k - 1] + self.Y[k]) / 2
        return self.Y[k - 1]


class PWL(object):
    def __init__(self, x, y1, y2):
        self.X = frl(x)
        self.Y1 = frl(y1)
        self.Y2 = frl(y2)

    def copy(self):
        m = PWL([], [], [])
        m.X = list(self.X)
        m.Y1 = list(self.Y1)
        m.Y2 = list(self.Y2)
        return m

    def at_inside(self, k, t):
        """value of piece k at time t in [X[k], X[k+1]]"""
        w = self.X[k + 1] - self.X[k]
        return self.Y1[k] + (self.Y2[k] - self.Y1[k]) * (t - self.X[k]) / w

    def piece_of(self, t):
        return bisect.bisect_right(self.X, t) - 1

    def add(self, o):
        X = sorted(set(self.X) | set(o.X))
        Y1 = []
        Y2 = []
        for k in range(len(X) - 1):
            mid = (X[k] + X[k + 1]) / 2
            ka = self.piece_of(mid)
            kb = o.piece_of(mid)
            Y1.append(self.at_inside(ka, X[k]) + o.at_inside(kb, X[k]))
            Y2.append(self.at_inside(ka, X[k + 1]) + o.at_inside(kb, X[k + 1]))
        self.X, self.Y1, self.Y2 = X, Y1, Y2

    def mul(self, f):
        f = fr(f)
        self.Y1 = [v * f for v in self.Y1]
        self.Y2 = [v * f for v in self.Y2]

    def integral(self, a=None, b=None):
        a = self.X[0] if a is None else fr(a)
        b = self.X[-1] if b is None else fr(b)
        tot = F(0)
        for k in range(len(self.Y1)):
            lo = max(self.X[k], a)
            hi = min(self.X[k + 1], b)
            if hi > lo:
                tot += (hi - lo) * (self.at_inside(k, lo) + self.at_inside(k, hi)) / 2
        return tot

    def value(self, t):
        t = fr(t)
        if t == self.X[0]:
            return self.Y1[0]
        if t == self.X[-1]:
            return self.Y2[-1]
        k = bisect.bisect_left(self.X, t)
        if self.X[k] == t:
            return (self.Y2[k - 1] + self.Y1[k]) / 2
        return self.at_inside(k - 1, t)


class DISC(object):
    """exact discrete-profile model: event map {time: [y, mp]} on [ts, te]; edge entries never count"""
    def __init__(self, x, y, mp):
        self.ts = float(x[0])
        self.te = float(x[-1])
        self.ev = {}
        for k in range(1, len(x) - 1):
            e = self.ev.setdefault(float(x[k]), [F(0), F(0)])
            e[0] += fr(y[k])
            e[1] += fr(mp[k])

    def copy(self):
        m = DISC([self.ts, self.te], [0, 0], [1, 1])
        m.ev = {t: list(v) for t, v in self.ev.items()}
        return m

    def add(self, o):
        for t, v in o.ev.items():
            e = self.ev.setdefault(t, [F(0), F(0)])
            e[0] += v[0]
            e[1] += v[1]

    def times(self):
        return sorted(self.ev)

    def sums(self, a=None, b=None):
        sy = F(0)
        sm = F(0)
        for t, v in self.ev.items():
            if a is None or (a < t < b):
                sy += v[0]
                sm += v[1]
        return sy, sm
