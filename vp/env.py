"""Bootstrap: import the code under test from the working tree, select the backend configuration.

Nothing is installed and nothing is written into /repo: the repository is imported fresh from
VP_REPO (default /repo) on every run ("rebuild" for a pure-Python tree = re-import; the .pyx emulation
re-reads the .pyx text), icontract is imported directly from the wheel files.
"""
import os
import sys
import io
import glob
import warnings

VERIF = os.path.dirname(os.path.dirname(os.path.abspath(__file__)))
REPO = os.path.abspath(os.environ.get("VP_REPO", "/repo"))
WHEELS = "/opt/veriftools/wheels"
PY = "/venv/bin/python"

_booted = {}


class StdoutSink(io.TextIOBase):
    """counting sink for prints of the code under test (PieceWiseLinFunc.integral debug prints, NoCythonWarn)"""
    def __init__(self):
        self.n = 0

    def write(self, s):
        self.n += 1
        return len(s)


SINK = StdoutSink()


def add_wheels():
    for name in ("icontract", "asttokens", "six", "typing_extensions"):
        hits = sorted(glob.glob(os.path.join(WHEELS, name + "-*.whl")))
        if not hits:
            raise RuntimeError("wheel for %s not found in %s" % (name, WHEELS))
        if hits[-1] not in sys.path:
            sys.path.append(hits[-1])


def boot(config="fallback"):
    """import pyspike from REPO; config in {'fallback','emulated'}; returns the pyspike module"""
    if _booted:
        if _booted["config"] != config:
            raise RuntimeError("one configuration per process")
        return _booted["ps"]
    sys.dont_write_bytecode = True
    warnings.filterwarnings("ignore")
    if REPO in sys.path:
        sys.path.remove(REPO)
    sys.path.insert(0, REPO)
    add_wheels()
    import numpy as np
    np.seterr(all="ignore")
    import pyspike
    here = os.path.realpath(pyspike.__file__)
    if not here.startswith(os.path.realpath(REPO) + os.sep):
        raise RuntimeError("pyspike imported from %s, not from %s" % (here, REPO))
    pyspike.disable_backend_warning = True
    # make sure no real compiled extension sneaks in (none can exist here, but say so if it does)
    import importlib
    for m in ("cython_profiles", "cython_distances", "cython_add", "cython_directionality", "cython_get_tau"):
        try:
            importlib.import_module("pyspike.cython." + m)
            raise RuntimeError("a built extension pyspike.cython.%s exists; the harness assumes none" % m)
        except ImportError:
            pass
    emu = None
    if config == "emulated":
        from . import pyxemu
        emu = pyxemu.install(REPO)
    elif config != "fallback":
        raise ValueError(config)
    _booted.update(config=config, ps=pyspike, emu=emu)
    return pyspike


def emu_modules():
    return _booted.get("emu")


def config():
    return _booted.get("config")
