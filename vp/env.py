"""Bootstrap: import the code under test from the working tree, select the backend configuration.

Nothing is installed and nothing is written into /repo: the repository is imported fresh from
VP_REPO (default /repo) on every run ("rebuild" for a pure-Python tree = re-import; the .pyx emulation
re-reads the .pyx text), icontract is imported directly from the wheel files.
"""
import os
import sys
import io
import glob
import warnings

VERIF = os.path.dirname(os.path.dirname(os.path.abspath(__file__)))
REPO = os.path.abspath(os.environ.get("VP_REPO", "/repo"))
WHEELS = "/opt/veriftools/wheels"
PY = "/venv/bin/python"

_booted = {}


class StdoutSink(io.TextIOBase):
    """counting sink for prints of the code under test (PieceWiseLinFunc.integral debug prints, NoCythonWarn)"""
    def __init__(self):
        self.n = 0

    def write(self, s):
        self.n += 1
        return len(s)


SINK = StdoutSink()


def add_wheels():
    for name in ("icontract", "asttokens", "six", "typing_extensions"):
        hits = sorted(glob.glob(os.path.join(WHEELS, name + "-*.whl")))
        if not hits:
            raise RuntimeError("wheel for %s not found in %s" % (name, WHEELS))
        if hits[-1] not in sys.path:
            sys.path.append(hits[-1])


def boot(config="fallback"):
    """import pyspike from REPO; config in {'fallback','emulated'}; returns the pyspike module"""
    if _booted:
        if _booted["config"] != config:
            raise RuntimeError("one configuration per process")
        return _booted["ps"]
    sys.dont_write_bytecode = True
    warnings.filterwarnings("ignore")
    if REPO in sys.path:
        sys.path.remove(REPO)
    sys.path.insert(0, REPO)
    add_wheels()
    import numpy as np
    np.seterr(all="ignore")
    import pyspike
    here = os.path.realpath(pyspike.__file__)
    if not here.startswith(os.path.realpath(REPO) + os.sep):
        raise RuntimeError("pyspike imported from %s, not from %s" % (here, REPO))
    pyspike.disable_backend_warning = True
    # make sure no real compiled extension sneaks in (none can exist here, but say so if it does)
    import importlib
    for m in ("cython_profiles", "cython_distances", "cython_add", "cython_directionality", "cython_get_tau"):
        try:
            importlib.import_module("pyspike.cython." + m)
            raise RuntimeError("a built extension pyspike.cython.%s exists; the harness assumes none" % m)
        except ImportError:
            pass
    emu = None
    if config == "emulated":
        from . import pyxemu
        emu = pyxemu.install(REPO)
    elif config != "fallback":
        raise ValueError(config)
    _booted.update(config=config, ps=pyspike, emu=emu)
    if os.environ.get("VP_NO_POISON") != "1":
        _booted["poisoned_modules"] = install_poison()
    return pyspike


class PoisonNumpy(object):
    """M8 - what the code under test sees as `np`: numpy, except that np.empty / np.empty_like hand out memory filled
    with a poison pattern (NaN for floating dtypes, a large negative sentinel for integers) instead of whatever the
    allocator happens to return.  Memory from np.empty is *unspecified*; correct code writes every element it later
    exposes, so the poison can never reach a result.  Code that relies on fresh pages being zero - right in a first
    call, wrong once the allocator recycles a block - shows NaN in its output and is caught by the ordinary oracles."""
    INT_POISON = -(2 ** 62) + 12345

    def __init__(self, np):
        object.__setattr__(self, "_np", np)
        object.__setattr__(self, "poisoned_allocations", 0)

    def __getattr__(self, name):
        return getattr(self._np, name)

    def _fill(self, a):
        np = self._np
        object.__setattr__(self, "poisoned_allocations", self.poisoned_allocations + 1)
        if a.dtype.kind in "fc":
            a.fill(np.nan)
        elif a.dtype.kind in "iu":
            a.fill(self.INT_POISON if a.dtype.itemsize >= 8 else -12345)
        elif a.dtype.kind == "b":
            a.fill(True)
        return a

    def empty(self, *args, **kw):
        return self._fill(self._np.empty(*args, **kw))

    def empty_like(self, *args, **kw):
        return self._fill(self._np.empty_like(*args, **kw))


POISON = None


def install_poison():
    """replace the global `np` of every module of the code under test (and of the emulated .pyx modules)"""
    global POISON
    import numpy
    if POISON is None:
        POISON = PoisonNumpy(numpy)
    n = 0
    import importlib
    for lazy in ("pyspike.cython.python_backend", "pyspike.cython.directionality_python_backend"):
        try:     # the fallbacks are imported lazily by the front ends: load them now so that they are covered
            importlib.import_module(lazy)
        except ImportError:
            pass
    for name, mod in list(sys.modules.items()):
        if mod is None or not (name == "pyspike" or name.startswith("pyspike.")):
            continue
        d = getattr(mod, "__dict__", {})
        for alias in ("np", "numpy"):
            if d.get(alias) is numpy:
                d[alias] = POISON
                n += 1
    return n


def poison_stats():
    return {"modules_with_poisoned_numpy": _booted.get("poisoned_modules", 0),
            "poisoned_allocations": POISON.poisoned_allocations if POISON is not None else 0}


def emu_modules():
    return _booted.get("emu")


def config():
    return _booted.get("config")
