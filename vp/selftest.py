"""setup_cmd: verify that everything the checks need is importable offline (nothing is installed or built)."""
import sys


def main():
    from . import env
    env.add_wheels()
    import icontract  # noqa
    import numpy  # noqa
    ps = env.boot("fallback")
    from . import pyxemu
    src_ok = []
    import os
    for name in ("cython_get_tau",) + pyxemu.MODS:
        path = os.path.join(env.REPO, "pyspike", "cython", name + ".pyx")
        pyxemu.translate(open(path).read())
        src_ok.append(name)
    print("selftest ok: pyspike from %s, icontract %s, numpy %s, transliterable: %s"
          % (os.path.dirname(ps.__file__), icontract.__version__, numpy.__version__, ",".join(src_ok)))
    return 0


if __name__ == "__main__":
    sys.exit(main())
