"""One worker process = one configuration x one seed stream.
usage: python -B -m vp.worker <prop> <config> <tier> <seed> <k> <K> <outfile> [<replayfile>]"""
import importlib
import json
import os
import random
import sys
import time
import traceback


def main(argv):
    prop_id, config, tier, seed, k, K, out = argv[:7]
    seed = int(seed)
    k = int(k)
    K = int(K)
    replay = argv[7] if len(argv) > 7 else None
    t0 = time.time()
    from . import env, harness, monitors, pyxemu
    try:
        ps = env.boot(config)
    except pyxemu.EmuUnsupported as e:
        json.dump({"fatal": "emulator cannot transliterate the .pyx sources: %s" % e, "kind": "inconclusive"},
                  open(out, "w"))
        return 0
    mod = importlib.import_module("vp.props." + prop_id.lower())
    prop = mod.PROP
    ctx = harness.Ctx(prop_id, config, tier, seed, k)
    if getattr(prop, "class_invariants", True):
        monitors.install_class_invariants(ps, strict_monotone=getattr(prop, "strict_invariants", True))
    if getattr(prop, "kernel_contracts", True):
        monitors.install_kernel_contracts(ps)
    arms = getattr(prop, "arm_files", None)
    if arms is not None and k == 0:
        files = [(os.path.join(env.REPO, p), f) for p, f in arms]
        if config == "emulated":
            files += [(os.path.join(env.REPO, "pyspike", "cython", n + ".pyx"), None)
                      for n in ("cython_get_tau",) + pyxemu.MODS]
        monitors.install_arm_observer(files)
    if getattr(prop, "progress_monitor", True) and getattr(prop, "kernel_contracts", True) and k == 1 % K:
        monitors.install_progress_monitor(ps)
    if hasattr(prop, "setup"):
        prop.setup(ctx)
    if replay:
        rec = json.load(open(replay))
        if "case_typed" in rec:
            cases = [harness.typed_decode(rec["case_typed"])]
            ctx.evals = int(rec.get("evals0", 1)) - 1
            ctx.cut_calls = int(rec.get("cut_calls0", 0))
        else:
            cases = [rec["case"]]
        soft = 3600
    else:
        n_total = prop.budget[tier]
        n = n_total // K + (1 if k < n_total % K else 0)
        rng = random.Random("%s|%s|%d|%s|%d" % (prop_id, tier, seed, config, k))
        cases = prop.cases(rng, tier, config, k, K, n)
        soft = {"quick": 240, "thorough": 2400}[tier]
    info = harness.run_cases(prop, ctx, cases, soft)
    if hasattr(prop, "finish"):
        try:
            prop.finish(ctx)
        except harness.CutFailed:
            pass
    res = harness.worker_result(prop, ctx, info, time.time() - t0)
    with open(out, "w") as f:
        json.dump(res, f)
    return 0


if __name__ == "__main__":
    try:
        sys.exit(main(sys.argv[1:]))
    except SystemExit:
        raise
    except BaseException:
        traceback.print_exc()
        sys.exit(3)
