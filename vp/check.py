"""CLI:  /venv/bin/python -B -m vp.check C07 [--tier quick|thorough] [--seed N] [--replay FILE]

exit 0  property held on everything observed (KNOWN-FINDING lines possible)
exit 1  VIOLATION property=<id> replay=<path>   (a witness not listed as an open known finding)
exit 2  INCONCLUSIVE property=<id> reason=...   (harness could not decide; never folded into 0 or 1)
"""
import argparse
import collections
import hashlib
import importlib
import json
import os
import subprocess
import sys
import tempfile
import time

from . import env, findings


def _merge_counts(dst, src):
    for k, v in (src or {}).items():
        if isinstance(v, (int, float)):
            dst[k] += v


def run(prop_id, tier, seed, replay=None, configs=None, workers=None, quiet=False):
    t0 = time.time()
    mod = importlib.import_module("vp.props." + prop_id.lower())
    prop = mod.PROP
    cfgs = list(configs or prop.configs)
    K = workers or getattr(prop, "workers", {"quick": 4, "thorough": 8})[tier]
    if len(cfgs) == 1:
        K = K * 2 if not workers else K
    tmp = tempfile.mkdtemp(prefix="vp_%s_" % prop_id)
    procs = []
    envv = dict(os.environ)
    envv["PYTHONDONTWRITEBYTECODE"] = "1"
    envv["PYTHONHASHSEED"] = "0"
    envv["PYTHONPATH"] = env.VERIF
    envv["OMP_NUM_THREADS"] = "1"
    envv["OPENBLAS_NUM_THREADS"] = "1"
    if replay:
        rec = json.load(open(replay))
        cfgs = [rec.get("config", cfgs[0])]
        K = 1
        tier = rec.get("tier", tier)
    for c in cfgs:
        for k in range(K):
            out = os.path.join(tmp, "%s_%d.json" % (c, k))
            cmd = [env.PY, "-B", "-m", "vp.worker", prop_id, c, tier, str(seed), str(k), str(K), out]
            if replay:
                cmd.append(os.path.abspath(replay))
            p = subprocess.Popen(cmd, cwd=env.VERIF, env=envv, stdout=subprocess.PIPE, stderr=subprocess.STDOUT)
            procs.append((c, k, out, p))
    hard = {"quick": 600, "thorough": 5400}[tier]
    results = []
    inconclusive = []
    for c, k, out, p in procs:
        left = max(5, hard - (time.time() - t0))
        try:
            so, _ = p.communicate(timeout=left)
        except subprocess.TimeoutExpired:
            p.kill()
            so, _ = p.communicate()
            inconclusive.append("worker %s/%d killed by the wall-clock watchdog after %ds" % (c, k, hard))
            continue
        if p.returncode != 0 or not os.path.exists(out):
            inconclusive.append("worker %s/%d exited %s without a result: %s"
                                % (c, k, p.returncode, (so or b"").decode(errors="replace")[-1500:]))
            continue
        r = json.load(open(out))
        if "fatal" in r:
            inconclusive.append("%s: %s" % (c, r["fatal"]))
            continue
        results.append(r)
    for _, _, out, _ in procs:
        try:
            os.remove(out)
        except OSError:
            pass
    try:
        os.rmdir(tmp)
    except OSError:
        pass

    # ------------------------------------------------------------------ aggregate
    counters = collections.Counter()
    contracts = collections.Counter()
    emu = collections.Counter()
    per_cfg = {}
    words = set()
    viols = []
    samples = []
    arms = {}
    progress = collections.Counter()
    poison = collections.Counter()
    evals = cut_calls = guard = ro = sup = rep = 0
    for r in results:
        _merge_counts(counters, r["counters"])
        _merge_counts(contracts, r["contracts"])
        _merge_counts(emu, r.get("emu_stats"))
        _merge_counts(progress, r.get("progress"))
        _merge_counts(poison, r.get("poison"))
        words.update(r["words"])
        viols.extend(r["violations"])
        evals += r["evaluations"]
        cut_calls += r["cut_calls"]
        guard += r["guard_checks"]
        ro += r["readonly_calls"]
        rep += r.get("repeat_checks", 0)
        sup += r["stdout_suppressed"]
        pc = per_cfg.setdefault(r["config"], {"evaluations": 0, "cut_calls": 0, "workers": 0})
        pc["evaluations"] += r["evaluations"]
        pc["cut_calls"] += r["cut_calls"]
        pc["workers"] += 1
        if r["worker"] == 0:
            samples.extend(r["samples"][:2])
            if r.get("arms"):
                arms[r["config"]] = r["arms"]
        inconclusive.extend(r["inconclusive"])
        if r["truncated"]:
            inconclusive.append("worker %s/%d stopped at its soft deadline before finishing its cases"
                                % (r["config"], r["worker"]))
    must = {}
    if not replay:
        for m in getattr(prop, "must_see", []):
            must[m] = counters.get(m, 0)
            if must[m] == 0:
                inconclusive.append("must-see class %r was never observed" % m)
        unattached = [k for k in contracts if k.startswith("not-attachable:")]
        for m in getattr(prop, "must_contracts", []):
            must["contract:" + m] = contracts.get(m, 0)
            if contracts.get(m, 0) == 0:
                if m.startswith("post:") and unattached:
                    # the routine the hook-level contract belongs to was renamed / re-parameterised by a refactoring: the
                    # contract is an additional monitor, the output-level oracles still decide
                    must["contract:" + m] = "not attachable: " + "; ".join(u[len("not-attachable:"):] for u in unattached)[:300]
                else:
                    inconclusive.append("contract %r was evaluated zero times (stale binding?)" % m)
        if evals == 0 or cut_calls == 0:
            inconclusive.append("no executions observed")

    # ------------------------------------------------------------------ classify violations
    known = findings.open_keys(prop_id)
    known_hit = collections.OrderedDict()
    fresh = collections.OrderedDict()
    for v in viols:
        key = "%s:%s" % (v["config"], v["what"])
        v["key"] = key
        if key in known:
            known_hit.setdefault(key, []).append(v)
        else:
            fresh.setdefault(key, []).append(v)
    lines = []
    for key, vs in known_hit.items():
        lines.append("KNOWN-FINDING: property=%s %s [%s] (%d witnesses this run)"
                     % (prop_id, known[key]["what"], key, len(vs)))
    outroot = os.environ.get("VP_SCRATCH") or env.VERIF      # VP_SCRATCH: mutant self-tests must not touch /verif/evidence
    rdir = os.path.join(outroot, "replays", prop_id)
    for key, vs in fresh.items():
        v = vs[0]
        if replay:
            path = os.path.abspath(replay)
        else:
            os.makedirs(rdir, exist_ok=True)
            blob = json.dumps([v["config"], v["what"], v["case"]], sort_keys=True)
            path = os.path.join(rdir, hashlib.sha1(blob.encode()).hexdigest()[:16] + ".json")
            with open(path, "w") as f:
                f.write(json.dumps(v, indent=1, sort_keys=True))
        lines.append("VIOLATION property=%s replay=%s" % (prop_id, path))
        lines.append("  what: %s" % key)
        lines.append("  detail: %s" % v["detail"].replace("\n", "\n    ")[:1200])
    wall = time.time() - t0

    if not replay:
        ev = {
            "property_id": prop_id, "tier": tier, "seed": seed, "level": getattr(prop, "level", "exploration"),
            "coverage": {
                "evaluations": evals,
                "distinct_nontrivial": len(words),
                "rule": prop.rule,
                "samples": samples[:4] if samples else [{"note": "no sample recorded"}],
                "calls_into_code_under_test": cut_calls,
                "per_configuration": per_cfg,
                "class_counters": dict(sorted(counters.items())),
                "must_see": must,
                "contract_evaluations": dict(sorted(contracts.items())),
                "input_guard_checks": guard,
                "calls_with_readonly_inputs": ro,
                "calls_repeated_and_compared": rep,
                "suppressed_prints_of_code_under_test": sup,
                "known_findings_matched": {k: len(v) for k, v in known_hit.items()},
                "inconclusive_reasons": inconclusive[:20],
                "exhaustive": False,
            },
            "assumptions": list(getattr(prop, "assumptions", [])) + [
                "held on the executions listed above only; nothing is claimed about inputs the workload did not drive",
                "code under test imported fresh from %s" % env.REPO,
            ],
            "wall_s": round(wall, 2),
            "violations": sum(len(v) for v in fresh.values()),
        }
        if emu:
            ev["coverage"]["emulated_pyx_index_operations_bounds_checked"] = emu.get("index_ops", 0)
            ev["coverage"]["emulated_pyx_out_of_bounds"] = emu.get("oob", 0)
        if arms:
            ev["coverage"]["branch_arms"] = arms
        if progress:
            ev["coverage"]["cursor_progress_monitor"] = dict(progress)
        if poison:
            ev["coverage"]["uninitialised_memory_poison"] = dict(poison)
        os.makedirs(os.path.join(outroot, "evidence"), exist_ok=True)
        with open(os.path.join(outroot, "evidence", prop_id + ".json"), "w") as f:
            json.dump(ev, f, indent=1)

    code = 0
    if fresh:
        code = 1
    elif inconclusive:
        code = 2
        lines.append("INCONCLUSIVE property=%s reason=%s" % (prop_id, " | ".join(inconclusive)[:1500]))
    lines.append("%s %s tier=%s seed=%d configs=%s cases=%d calls=%d distinct=%d known=%d violations=%d wall=%.1fs"
                 % ("OK" if code == 0 else "FAIL" if code == 1 else "INCONCLUSIVE", prop_id, tier, seed,
                    ",".join(cfgs), evals, cut_calls, len(words), sum(len(v) for v in known_hit.values()),
                    sum(len(v) for v in fresh.values()), wall))
    if not quiet:
        print("\n".join(lines))
    return code


def main():
    ap = argparse.ArgumentParser()
    ap.add_argument("prop")
    ap.add_argument("--tier", default=os.environ.get("VERIF_TIER") or "quick", choices=["quick", "thorough"])
    ap.add_argument("--seed", type=int, default=int(os.environ.get("VERIF_SEED") or 0))
    ap.add_argument("--replay")
    ap.add_argument("--configs")
    ap.add_argument("--workers", type=int)
    a = ap.parse_args()
    cfgs = a.configs.split(",") if a.configs else None
    sys.exit(run(a.prop.upper(), a.tier, a.seed, a.replay, cfgs, a.workers))


if __name__ == "__main__":
    main()
