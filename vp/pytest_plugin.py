"""W11: run the repository's own test-suite with the always-on monitors switched on (and, with VP_CONFIG=emulated,
with the emulated compiled kernels).  A contract firing there is either too strict or a defect the tests do not assert.

  cd /repo && PYTHONPATH=/verif VP_CONFIG=fallback /venv/bin/python -B -m pytest -q -p no:cacheprovider -p vp.pytest_plugin test
"""
import os


def pytest_configure(config):
    from . import env, monitors
    ps = env.boot(os.environ.get("VP_CONFIG", "fallback"))
    monitors.install_class_invariants(ps, strict_monotone=True)
    monitors.install_kernel_contracts(ps)


def pytest_terminal_summary(terminalreporter):
    from . import monitors
    terminalreporter.write_line("vp monitors: contract evaluations %r; emulator %r"
                                % (monitors.evaluation_counts(), monitors.emu_stats()))
