"""C02 SPIKE-profile equals the SPIKE-distance definition (plain, RI and adaptive)."""
import random

import numpy as np

from .. import ref, gen
from . import common
from .common import BaseProp


class Prop(BaseProp):
    id = "C02"
    rule = ("pairs from W1/W2/W3 (/W4 thorough) x RI x MRTS regimes; spike_profile's breakpoints (exact), one-sided "
            "limits y1/y2 (1e-9), profile(t) at interior times, exact zeros at shared spike times and spike_distance "
            "are compared with the exact rational model of the statement. distinct = distinct interleaving words "
            "(+RI, MRTS regime) among non-trivial pairs")
    budget = {"quick": 2400, "thorough": 400000}
    must_see = ["empty_train", "one_spike_train_on_t_start", "one_spike_train_on_t_end", "shared_interior_spike",
                "shared_spike_on_t_start", "shared_spike_on_t_end", "RI_true", "mrts_above_all_isis",
                "mrts_between_isis", "nearest_is_auxiliary_spike", "evaluated_at_interior_time", "history_probe", "src_W13"]
    must_contracts = ["inv:PieceWiseLinFunc"]
    arm_files = [("pyspike/cython/python_backend.py", ["spike_distance_python", "get_min_dist", "dist_at_t"])]
    assumptions = ["reference: exact rational evaluation of the statement (vp/ref.py spike_profile_ref)",
                   "emulated configuration = .pyx algorithms run through a syntactic transliteration (DESIGN section 5)"]

    def cases(self, rng, tier, config, k, K, n):
        return common.pair_stream(rng, tier, n, k, K, kw_fn=common.kw_spike,
                                  nmax=None if tier == "thorough" else rng.choice([3, 5, 8]))

    def check(self, case, ctx):
        ps = ctx.ps
        common.pair_classes(ctx, case)
        s1, s2 = case["trains"][0], case["trains"][1]
        ts, te = case["ts"], case["te"]
        st1, st2 = ctx.trains(case)
        m = case["kw"]["MRTS"]
        RI = case["kw"]["RI"]
        kw = {"MRTS": m, "RI": RI}
        # class: nearest spike of some spike is an auxiliary spike of the other train
        for a, b in ((s1, s2), (s2, s1)):
            if a and len(b) >= 2:
                lo_aux = min(ts, b[0] - (b[1] - b[0]))
                hi_aux = max(te, b[-1] + (b[-1] - b[-2]))
                for t in (a[0], a[-1]):
                    dreal = min(abs(t - u) for u in b)
                    if min(abs(t - lo_aux), abs(t - hi_aux)) < dreal:
                        ctx.count("nearest_is_auxiliary_spike")
        prof = ctx.call(ps.spike_profile, st1, st2, **kw)
        if not ctx.expect(isinstance(prof, ps.PieceWiseLinFunc), "wrong-type", "spike_profile returned %r" % type(prof)):
            return
        ctx.sample({"trains": case["trains"], "edges": [ts, te], "kw": kw,
                    "x": prof.x, "y1": prof.y1, "y2": prof.y2})
        xr, y1r, y2r = ref.spike_profile_ref(s1, s2, ts, te, m or 0, RI)
        tag = "spike-profile" + ("-RI" if RI else "") + ":" + common.degenerate_class(case)
        ok = common.same_axis(ctx, prof.x, xr, "spike-breakpoints", "spike_profile")
        if ok:
            ok = common.arr_close(ctx, prof.y1, y1r, tag, "spike_profile.y1 (right limits at piece starts)") and \
                common.arr_close(ctx, prof.y2, y2r, tag, "spike_profile.y2 (left limits at piece ends)")
        if ok:
            shared = set(s1) & set(s2)
            x = prof.x.tolist()
            for kx, t in enumerate(x):
                if t in shared:
                    ctx.count("zero_at_shared_checked")
                    if kx < len(x) - 1:
                        ctx.expect(prof.y1[kx] == 0.0, "spike-nonzero-at-simultaneous",
                                   "right limit at shared spike time %r is %r" % (t, prof.y1[kx]))
                    if kx > 0:
                        ctx.expect(prof.y2[kx - 1] == 0.0, "spike-nonzero-at-simultaneous",
                                   "left limit at shared spike time %r is %r" % (t, prof.y2[kx - 1]))
            # evaluation at interior times against the pointwise definition
            r2 = random.Random(repr(case["trains"]))
            for _ in range(3):
                kx = r2.randrange(len(x) - 1)
                f = r2.choice([0.5, 0.25, 0.75, 0.125, r2.random()])
                t = x[kx] + (x[kx + 1] - x[kx]) * f
                if not (x[kx] < t < x[kx + 1]):
                    continue
                v = ctx.call(prof, t, _name="PieceWiseLinFunc.__call__")
                want = ref.spike_value_ref(s1, s2, ts, te, m or 0, RI, t)
                ctx.count("evaluated_at_interior_time")
                ctx.close(v, want, "spike-value-at-t", "spike_profile(t=%r)" % t)
        if ctx.evals % 3 == 0 and len(s1) + len(s2) <= 40:
            # state must not leak between calls (see C01.history_probes)
            ctx.count("history_probe")
            prof.y1[:] = -7.0
            prof.y2 *= 3.0
            again = ctx.call(ps.spike_profile, st1, st2, _repeat=False, **kw)
            if common.same_axis(ctx, again.x, xr, "spike:state-leak:returned-object-shared", "spike_profile after the caller modified the previously returned profile"):
                common.arr_close(ctx, again.y1, y1r, "spike:state-leak:returned-object-shared", "y1 after the caller modified the previously returned profile")
                common.arr_close(ctx, again.y2, y2r, "spike:state-leak:returned-object-shared", "y2 after the caller modified the previously returned profile")
            Tw = te - ts
            ts2, te2 = ts - Tw / 4, te + Tw / 2
            w1 = ps.SpikeTrain(np.array(s1, dtype=float), [ts2, te2])
            w2 = ps.SpikeTrain(np.array(s2, dtype=float), [ts2, te2])
            wide = ctx.call(ps.spike_profile, w1, w2, _repeat=False, **kw)
            xw, y1w, y2w = ref.spike_profile_ref(s1, s2, ts2, te2, m or 0, RI)
            if common.same_axis(ctx, wide.x, xw, "spike:state-leak:same-spikes-other-interval", "spike_profile of the same spike times on the wider interval"):
                common.arr_close(ctx, wide.y1, y1w, "spike:state-leak:same-spikes-other-interval", "y1 on the wider interval")
                common.arr_close(ctx, wide.y2, y2w, "spike:state-leak:same-spikes-other-interval", "y2 on the wider interval")
        T = xr[-1] - xr[0]
        avg = sum((a + b) / 2 * (x1 - x0) for a, b, x0, x1 in zip(y1r, y2r, xr, xr[1:])) / T
        d = ctx.call(ps.spike_distance, st1, st2, **kw)
        ctx.close(d, avg, "spike-distance" + ("-RI" if RI else "") + ":" + common.degenerate_class(case),
                  "spike_distance vs exact average of the reference profile")


PROP = Prop()
