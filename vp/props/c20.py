"""C20 Merging and histogramming conserve every spike."""
import collections

import math

import numpy as np

from .. import ref, gen
from . import common
from .common import BaseProp


class Prop(BaseProp):
    id = "C20"
    configs = ("fallback",)
    kernel_contracts = False
    rule = ("W5 lists of 1..8 trains with cross-train duplicate times, empty trains, spikes on both edges (lists of length 1 "
            "with read-only arrays included): merge_spike_trains vs the sorted multiset union on the first train's interval; "
            "psth with bin sizes T/64..T incl. non-divisors vs independently counted bins on linspace edges (last bin closed, "
            "sum = total spikes); generate_poisson_spikes under a seeded numpy RNG for rates spanning 1e-3..1e3 spikes per "
            "recording on shifted intervals (T_start > 0, < 0, scalar form): sorted, inside [T_start, T_end), edges carried. "
            "distinct = (kind, interleaving word / bin regime / rate regime)")
    budget = {"quick": 3000, "thorough": 1500000}
    must_see = ["merge", "merge_cross_train_duplicates", "merge_empty_train", "merge_single_train", "merge_spike_on_t_end",
                "psth", "psth_non_divisor", "psth_spike_on_t_end", "psth_bin_equals_T", "psth_list_mutated_between_calls", "poisson", "poisson_scalar_interval",
                "poisson_shifted_start", "poisson_negative_start", "poisson_empty_result", "poisson_many_spikes"]
    arm_files = [("pyspike/spikes.py", ["merge_spike_trains", "generate_poisson_spikes"]), ("pyspike/psth.py", None)]
    assumptions = ["psth bin edges are compared with np.linspace(t_start, t_end, int(T/bin)+1) as the statement's 'equally wide "
                   "bins spanning the recording' (1e-12*T)"]

    def cases(self, rng, tier, config, k, K, n):
        for idx in range(n):
            kind = rng.choice(["merge", "merge", "psth", "psth", "poisson"])
            if kind in ("merge", "psth"):
                case = gen.dyadic_list(rng, tier, 1, 8) if rng.random() < 0.7 else gen.hostile_list(rng, tier, 1, 6)
                if rng.random() < 0.5 and len(case["trains"]) > 1:
                    src = case["trains"][0]
                    if src:
                        case["trains"][1] = sorted(set(case["trains"][1]) | set(rng.sample(src, rng.randint(1, len(src)))))
                case["kind"] = kind
                T = case["te"] - case["ts"]
                case["bin"] = rng.choice([T, T / 2, T / 3, T / 4, T / 7, T / 64, T * 0.3, T * 0.7, T / 10, T * 0.999,
                                          T / rng.randint(1, 200), T / rng.randint(1, 200), T / rng.randint(1, 200)])
                # bins narrower than a few ulps of the time stamps cannot be "equally wide" in binary64 whatever the
                # implementation does (recordings at 2**40 sampled at ulp scale): outside the domain
                ulp = math.ulp(max(abs(case["ts"]), abs(case["te"])))
                if case["bin"] < 16 * ulp:
                    case["bin"] = min(T, 16 * ulp)
            else:
                T0 = rng.choice([0.0, 0.0, 50.0, 1000.0, -100.0, -20.0, 0.5])
                L = rng.choice([1.0, 10.0, 100.0, 0.01])
                case = {"kind": "poisson", "T_start": T0, "T_end": T0 + L, "scalar": (T0 == 0.0 and rng.random() < 0.5),
                        "per_recording": 10 ** rng.uniform(-3, 3), "seed": rng.randrange(1 << 31)}
            yield case

    def check(self, case, ctx):
        ps = ctx.ps
        kind = case["kind"]
        ctx.count(kind)
        ctx.sample(case)
        if kind == "merge":
            tr = case["trains"]
            ts, te = case["ts"], case["te"]
            ctx.word(("merge", gen.word_of(tr, ts, te)), True)
            sts = ctx.trains(case)
            allsp = [t for s in tr for t in s]
            if len(set(allsp)) < len(allsp):
                ctx.count("merge_cross_train_duplicates")
            if any(not s for s in tr):
                ctx.count("merge_empty_train")
            if len(tr) == 1:
                ctx.count("merge_single_train")
            if te in allsp:
                ctx.count("merge_spike_on_t_end")
            m = ctx.call(ps.merge_spike_trains, sts, _name="merge_spike_trains", _readonly=True)
            got = common.tl(m.spikes)
            ctx.expect(got == sorted(allsp), "merge:not-multiset-union", "merged %s, expected sorted multiset union %s (missing %s, extra %s)"
                       % (common.short(got), common.short(sorted(allsp)), dict(collections.Counter(allsp) - collections.Counter(got)), dict(collections.Counter(got) - collections.Counter(allsp))))
            ctx.expect(m.t_start == ts and m.t_end == te, "merge:edges", "edges [%r,%r]" % (m.t_start, m.t_end))
            ctx.expect(not any(np.shares_memory(m.spikes, s.spikes) for s in sts), "merge:aliases-input", "merged train shares memory with an input train")
        elif kind == "psth":
            tr = case["trains"]
            ts, te = case["ts"], case["te"]
            T = te - ts
            b = case["bin"]
            sts = ctx.trains(case)
            nb = int(T / b)
            if nb < 1:
                return
            if abs(T / b - round(T / b)) > 1e-9:
                ctx.count("psth_non_divisor")
            if nb == 1:
                ctx.count("psth_bin_equals_T")
            allsp = [t for s in tr for t in s]
            if te in allsp:
                ctx.count("psth_spike_on_t_end")
            ctx.word(("psth", nb, gen.word_of(tr, ts, te)), True)
            p = ctx.call(ps.psth, sts, b, _name="psth")
            if not ctx.expect(isinstance(p, ps.PieceWiseConstFunc), "psth:type", "psth returned %r" % type(p)):
                return
            edges = np.linspace(ts, te, nb + 1)
            x = np.asarray(p.x, dtype=float)
            if not ctx.expect(len(x) == nb + 1 and np.allclose(x, edges, rtol=0, atol=1e-12 * max(T, abs(ts), abs(te))) and x[0] == ts and x[-1] == te,
                              "psth:bin-edges", "bin edges %s, expected %d equally wide bins spanning [%r,%r]" % (common.short(x.tolist()), nb, ts, te)):
                return
            cnt = [0] * nb
            for t in allsp:
                if ts <= t <= te:
                    kx = nb - 1 if t == te else int(np.searchsorted(x, t, side="right")) - 1
                    cnt[kx] += 1
            ctx.expect(np.asarray(p.y, dtype=float).tolist() == [float(v) for v in cnt], "psth:bin-counts", "bin values %s, independent count %s" % (common.short(np.asarray(p.y).tolist()), cnt))
            ctx.expect(float(np.sum(p.y)) == float(len(allsp)), "psth:not-conserving", "bin values sum to %r, %d spikes inside the recording" % (float(np.sum(p.y)), len(allsp)))
            # history: the SAME list object is changed in place (append / replace) and histogrammed again
            if len(tr) >= 1:
                ctx.count("psth_list_mutated_between_calls")
                extra = ps.SpikeTrain(np.array(sorted(set(tr[0]) | {ts + T / 2}), dtype=float), [ts, te])
                sts.append(extra)
                if len(sts) > 2:
                    sts[1] = ps.SpikeTrain(np.array([], dtype=float), [ts, te])
                all2 = [t for st_ in sts for t in common.tl(st_.spikes)]
                p2 = ctx.call(ps.psth, sts, b, _name="psth")
                cnt2 = [0] * nb
                for t in all2:
                    kx = nb - 1 if t == te else int(np.searchsorted(x, t, side="right")) - 1
                    cnt2[kx] += 1
                ctx.expect(np.asarray(p2.y, dtype=float).tolist() == [float(v) for v in cnt2], "psth:stale-after-list-mutation",
                           "after changing the list in place psth gives %s, independent count %s" % (common.short(np.asarray(p2.y).tolist()), cnt2))
        else:
            T0, T1 = case["T_start"], case["T_end"]
            L = T1 - T0
            rate = case["per_recording"] / L
            ctx.word(("poisson", T0, L, int(np.log10(case["per_recording"]))), True)
            np.random.seed(case["seed"])
            if case["scalar"]:
                ctx.count("poisson_scalar_interval")
                Tq = T1
                if case["seed"] % 3 == 1:
                    Tq = np.float64(T1)             # a numpy scalar is a single number, too (data.max(), arr[-1])
                    ctx.count("poisson_scalar_interval_numpy")
                st = ctx.call(ps.generate_poisson_spikes, rate, Tq, _name="generate_poisson_spikes", _repeat=False)
            else:
                iv = [T0, T1]
                if case["seed"] % 3 == 1:
                    iv = (np.float64(T0), np.float64(T1))
                elif case["seed"] % 3 == 2:
                    iv = np.array([T0, T1])
                st = ctx.call(ps.generate_poisson_spikes, rate, iv, _name="generate_poisson_spikes", _repeat=False)
            if T0 > 0:
                ctx.count("poisson_shifted_start")
            if T0 < 0:
                ctx.count("poisson_negative_start")
            sp = st.spikes
            if len(sp) == 0:
                ctx.count("poisson_empty_result")
            if len(sp) > 100:
                ctx.count("poisson_many_spikes")
            ctx.expect(st.t_start == T0 and st.t_end == T1, "poisson:edges", "edges [%r,%r], requested [%r,%r]" % (st.t_start, st.t_end, T0, T1))
            ctx.expect(bool(np.all(np.diff(sp) >= 0)), "poisson:not-sorted", "spikes not sorted")
            ctx.expect(bool(np.all(sp >= T0) and np.all(sp < T1)), "poisson:outside-interval",
                       "spikes outside [%r,%r): min %r max %r" % (T0, T1, float(np.min(sp)) if len(sp) else None, float(np.max(sp)) if len(sp) else None))
            # evidence only (the statement fixes no distribution): how often the count is far from rate*length
            mu = case["per_recording"]
            if abs(len(sp) - mu) > 12 * max(1.0, mu ** 0.5) + 1:
                ctx.count("poisson_count_far_from_expectation")

PROP = Prop()
