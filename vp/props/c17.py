"""C17 The SPIKE-Sync filter keeps exactly the spikes above threshold."""
from fractions import Fraction as F

import numpy as np

from .. import ref, gen
from . import common
from .common import BaseProp


class Prop(BaseProp):
    id = "C17"
    rule = ("lists of 2..9 (thorough 24) trains (W5) x thresholds {0, 1, k/(N-1) hit exactly, random} x max_tau x MRTS; "
            "the kept set must be exactly {spikes with c/(N-1) > thr} where c = number of other trains with which the "
            "spike is coincident under the exact pairwise model - cross-checked against the real bivariate profiles and "
            "against the multivariate profile value at that spike; kept+removed must partition each train in order on "
            "the original interval; a higher threshold never keeps more; inputs unchanged. Threshold comparisons that "
            "are rounding-ambiguous (float and exact comparison disagree) are counted, not judged. distinct = "
            "(interleaving word, keyword regime, threshold class)")
    budget = {"quick": 1400, "thorough": 42000}
    must_see = ["crowd_more_than_127_trains", "thr_exact_hit_N-1=1", "thr_exact_hit_N-1=2", "thr_exact_hit_N-1=4", "thr_zero", "thr_one", "thr_random",
                "spike_value_equals_threshold", "simultaneous_spikes", "max_tau_positive", "mrts_positive",
                "profile_crosscheck", "removed_checked", "monotone_checked", "empty_train_in_list", "reconcile_off"]
    arm_files = [("pyspike/spike_sync.py", ["filter_by_spike_sync"]), ("pyspike/cython/python_backend.py", ["coincidence_single_python"])]
    assumptions = ["coincidence per pair: exact pairwise model (as C03)", "on non-dyadic input, spikes involved in a "
                   "rounding-ambiguous coincidence are not judged"]

    def cases(self, rng, tier, config, k, K, n):
        def stream():
            # W15 crowd: one case per worker (thorough: a few, up to 300 trains) with more than 127 / 255 trains
            for q in range(1 if tier == "quick" else 3):
                c = gen.crowd_list(rng, rng.choice([130, 136]) if tier == "quick" else rng.choice([130, 200, 260, 300]))
                c["kw"] = {"MRTS": 0, "max_tau": rng.choice([None, 0, 8.0])}
                yield c
            for c in common.list_stream(rng, tier, n, k, K, kw_fn=common.kw_sync, nmin=2,
                                        nmax_trains=9 if tier == "quick" else 24):
                yield c
        for case in stream():
            N = len(case["trains"])
            r = rng.random()
            if r < 0.12:
                thr, cls = 0.0, "zero"
            elif r < 0.2:
                thr, cls = 1.0, "one"
            elif r < 0.7:
                thr, cls = rng.randint(0, N - 1) / (N - 1), "k/(N-1)"
            else:
                thr, cls = rng.random(), "random"
            case["thr"] = thr
            case["thr_class"] = cls
            case["thr2"] = min(1.0, thr + rng.choice([0.0, 1.0 / (N - 1), 0.3, rng.random()]))
            # the same numbers in the forms users pass them (python int for 0 / 1, numpy scalar, 0-d array)
            case["thr_u"] = common.as_user_number(rng, float(thr))
            case["thr2_u"] = common.as_user_number(rng, float(case["thr2"]))
            yield case

    def check(self, case, ctx):
        ps = ctx.ps
        common.list_classes(ctx, case)
        tr = case["trains"]
        ts, te = case["ts"], case["te"]
        N = len(tr)
        sts = ctx.trains(case)
        m = case["kw"]["MRTS"] or 0
        mt = case["kw"]["max_tau"]
        kw = {"MRTS": m, "max_tau": mt}
        thr = case["thr"]
        if N > 127:
            ctx.count("crowd_more_than_127_trains")
        ctx.count("thr_" + {"zero": "zero", "one": "one", "k/(N-1)": "kN", "random": "random"}[case["thr_class"]])
        if case["thr_class"] == "k/(N-1)" and (N - 1) in (1, 2, 4, 8):
            ctx.count("thr_exact_hit_N-1=%d" % (N - 1))
        ctx.word((gen.word_of(tr, ts, te), common.mrts_regime(case), case["thr_class"], N), True)
        ctx.sample({"trains": tr, "edges": [ts, te], "kw": kw, "threshold": thr})
        dy = bool(case.get("dyadic"))
        # ---- model: c[n][i] = number of other trains with which spike i of train n is coincident
        c = [[0] * len(s) for s in tr]
        amb = [[False] * len(s) for s in tr]
        for i in range(N):
            for j in range(i + 1, N):
                c1, c2, pairs, ties, near = ref.coincidences_ref(tr[i], tr[j], ts, te, mt or 0, m, want_ties=True)
                for q, v in enumerate(c1):
                    c[i][q] += 1 if v else 0
                for q, v in enumerate(c2):
                    c[j][q] += 1 if v else 0
                if not dy:
                    for (p, q) in near:
                        amb[i][p] = True
                        amb[j][q] = True
        if ctx.evals % 3 == 1:
            # valid input: switching reconciliation off must not change anything (and exercises the code path in which
            # the caller's own objects - possibly the same object listed twice - reach the per-spike scan)
            kw["Reconcile"] = False
            ctx.count("reconcile_off")
        res = ctx.call(ps.filter_by_spike_sync, sts, case.get("thr_u", thr), return_removed_spikes=True, **kw)
        if not ctx.expect(isinstance(res, (list, tuple)) and len(res) == 2 and len(res[0]) == N and len(res[1]) == N, "filter:shape",
                          "filter(return_removed_spikes=True) returned %s" % common.short(res)):
            return
        kept, removed = res
        only = ctx.call(ps.filter_by_spike_sync, sts, case.get("thr_u", thr), **kw)
        d = common.result_equal(ps, list(only), list(kept), 0)
        ctx.expect(d is None, "filter:kept-differs-without-removed-flag", "kept trains differ between return_removed_spikes False/True: %s" % d)
        Fthr = F(thr)
        for n in range(N):
            ks = common.tl(kept[n].spikes)
            rs = common.tl(removed[n].spikes)
            ctx.count("removed_checked")
            ctx.expect(kept[n].t_start == ts and kept[n].t_end == te and removed[n].t_start == ts and removed[n].t_end == te,
                       "filter:edges", "train %d: edges changed" % n)
            ctx.expect(sorted(ks + rs) == list(tr[n]) and ks == sorted(ks) and rs == sorted(rs), "filter:not-a-partition",
                       "train %d: kept %s + removed %s is not an ordered partition of %s" % (n, common.short(ks), common.short(rs), common.short(tr[n])))
            want = []
            for q, t in enumerate(tr[n]):
                exact = F(c[n][q], N - 1) > Fthr
                fl1 = c[n][q] > thr * (N - 1)
                fl2 = c[n][q] / (N - 1) > thr
                if F(c[n][q], N - 1) == Fthr:
                    ctx.count("spike_value_equals_threshold")
                # the statement compares "the value the multivariate profile shows" (the double c/(N-1)) with the
                # threshold: when both correctly rounded double forms agree they decide - also where the double nearest
                # to k/(N-1) lies on the other side of the rational k/(N-1); only their disagreement is left unjudged
                if fl1 == fl2 and not amb[n][q]:
                    if fl1 != exact:
                        ctx.count("decided_by_double_forms_not_rational")
                    if fl2:
                        want.append(t)
                    continue
                if amb[n][q] or not (exact == fl1 == fl2):
                    ctx.count("ambiguous_not_judged")
                    if t in ks:
                        want.append(t)
                    continue
                if exact:
                    want.append(t)
            ctx.expect(ks == want, "filter:kept-set:" + case["thr_class"], "train %d (N=%d, threshold %r): kept %s, expected the spikes with c/(N-1) > threshold: %s (c=%s)"
                       % (n, N, thr, common.short(ks), common.short(want), c[n]))
        # ---- cross-check the model count against the real profiles
        ctx.count("profile_crosscheck")
        kwp = {q: v for q, v in kw.items() if q != "Reconcile"}
        mp = ctx.call(ps.spike_sync_profile, sts, **kwp) if N > 2 else ctx.call(ps.spike_sync_profile, sts[0], sts[1], **kwp)
        xs = mp.x[1:-1].tolist()
        for n in range(N):
            for q, t in enumerate(tr[n]):
                owners = [o for o in range(N) if t in tr[o]]
                if len(owners) == 1 and not amb[n][q] and t in xs:
                    kx = xs.index(t) + 1
                    ctx.expect(mp.mp[kx] == N - 1 and mp.y[kx] == c[n][q], "filter:profile-value-vs-count",
                               "multivariate profile at spike %r of train %d shows y=%r mp=%r, pairwise count c=%d of N-1=%d" % (t, n, mp.y[kx], mp.mp[kx], c[n][q], N - 1))
                    val = mp.y[kx] / mp.mp[kx]
                    if (val > thr) == (F(c[n][q], N - 1) > Fthr):
                        ctx.expect((t in common.tl(kept[n].spikes)) == (val > thr), "filter:kept-vs-profile-value",
                                   "spike %r of train %d: multivariate profile value %r, threshold %r, kept=%r" % (t, n, val, thr, t in common.tl(kept[n].spikes)))
        # ---- a higher threshold never keeps more
        ctx.count("monotone_checked")
        k2 = ctx.call(ps.filter_by_spike_sync, sts, case.get("thr2_u", case["thr2"]), **kw)
        for n in range(N):
            ctx.expect(set(common.tl(k2[n].spikes)) <= set(common.tl(kept[n].spikes)), "filter:not-monotone",
                       "train %d: threshold %r keeps %s but the lower threshold %r keeps %s" % (n, case["thr2"], common.short(common.tl(k2[n].spikes)), thr, common.short(common.tl(kept[n].spikes))))


PROP = Prop()
