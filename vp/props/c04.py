"""C04 Spike-train-order and directionality follow the leader/follower sign convention."""
import numpy as np

from .. import ref, gen
from . import common
from .common import BaseProp


def kw_order(rng, case):
    kw = common.kw_sync(rng, case)
    kw.pop("RI", None)
    return kw


class Prop(BaseProp):
    id = "C04"
    rule = ("lists of 2..8 trains (W5: dyadic / hostile floats / degenerate triples, with empty, repeated and "
            "simultaneous spikes) x max_tau x MRTS x random `indices` subsets in random order. Bivariate order "
            "profile and per-spike directionality values are compared exactly with the pairwise sign model; "
            "multivariate values, directionality, matrix (antisymmetry, zero diagonal, entries), synfire indicator "
            "and every indices selection are checked as identities between real executions. distinct = interleaving "
            "words of the list incl. keyword regime and index selection")
    budget = {"quick": 700, "thorough": 84000}
    must_see = ["N>=4", "indices_non_prefix", "indices_reversed", "indices_not_sorted", "indices_skip_0",
                "empty_train_in_list", "simultaneous_spikes", "max_tau_positive", "mrts_positive",
                "leader_follower_pair_seen", "swap_checked", "matrix_checked", "synfire_checked", "history_probe"]
    must_contracts = ["inv:DiscreteFunc"]
    arm_files = [("pyspike/cython/directionality_python_backend.py", None),
                 ("pyspike/spike_directionality.py", None)]
    assumptions = ["bivariate layer: pairwise model in exact rational arithmetic; multivariate layer: identities "
                   "between real executions (pair results come from the same API, judged by the bivariate layer)",
                   "normalised directionality of an empty first train is only required to be finite"]

    def cases(self, rng, tier, config, k, K, n):
        for case in common.list_stream(rng, tier, n, k, K, kw_fn=kw_order, nmin=2,
                                       nmax_trains=6 if tier == "quick" else 8):
            N = len(case["trains"])
            case["idx"] = common.pick_indices(rng, N) if N >= 2 else [0, 1]
            yield case

    # ------------------------------------------------------------------------------------------------
    def check(self, case, ctx):
        ps = ctx.ps
        common.list_classes(ctx, case)
        tr = case["trains"]
        ts, te = case["ts"], case["te"]
        N = len(tr)
        sts = ctx.trains(case)
        m = case["kw"]["MRTS"] or 0
        mt = case["kw"]["max_tau"]
        kw = {"MRTS": m, "max_tau": mt}
        idx = case["idx"]
        common.idx_classes(ctx, idx, N)
        dy = bool(case.get("dyadic"))
        ctx.sample({"trains": tr, "edges": [ts, te], "kw": kw, "indices": idx})

        # ---------------- bivariate layer on the first two selected trains (model-based)
        i0, j0 = idx[0], idx[1]
        a, b = tr[i0], tr[j0]
        A, B = sts[i0], sts[j0]
        c1, c2, pairs, ties, near = ref.coincidences_ref(a, b, ts, te, mt or 0, m, want_ties=True)
        ambiguous = bool(near) and not dy
        if ambiguous:
            ctx.count("ambiguous_ties_not_judged")
        xr, yr, mpr, d1r, d2r = ref.order_ref(a, b, ts, te, mt or 0, m)
        if any(v != 0 for v in d1r):
            ctx.count("leader_follower_pair_seen")
        prof = ctx.call(ps.spike_train_order_profile, A, B, **kw)
        ok = common.same_axis(ctx, prof.x, xr, "order-event-times", "spike_train_order_profile.x")
        if ok:
            ok = common.arr_exact(ctx, prof.mp[1:-1], mpr, "order-multiplicity", "order profile mp")
        if ok and not ambiguous:
            common.arr_exact(ctx, prof.y[1:-1], yr, "order-profile-values", "order profile y (+1 leader pair / -1 / 0)")
        vals = ctx.call(ps.spike_directionality_values, A, B, **kw)
        if ctx.expect(isinstance(vals, (list, tuple)) and len(vals) == 2, "directionality-values-shape",
                      "spike_directionality_values(a,b) returned %s" % common.short(vals)) and not ambiguous:
            common.arr_exact(ctx, vals[0], d1r, "directionality-values", "values of train 1 (+1 leads / -1 follows)")
            common.arr_exact(ctx, vals[1], d2r, "directionality-values", "values of train 2")
        if not ambiguous:
            du = ctx.call(ps.spike_directionality, A, B, normalize=False, **kw)
            ctx.close(du, sum(d1r), "directionality-unnormalised", "spike_directionality(A,B,normalize=False) vs sum of A's values", rel=1e-12)
            if len(a):
                dn = ctx.call(ps.spike_directionality, A, B, normalize=True, **kw)
                ctx.close(dn, sum(d1r) / len(a), "directionality-normalised", "spike_directionality(A,B) vs sum/|A|", rel=1e-12)
            # swapping negates
            ctx.count("swap_checked")
            profs = ctx.call(ps.spike_train_order_profile, B, A, **kw)
            if common.same_axis(ctx, profs.x, xr, "order-swap", "swapped order profile x"):
                common.arr_exact(ctx, profs.y[1:-1], [-v for v in yr], "order-swap", "swapped order profile must be negated")
            dus = ctx.call(ps.spike_directionality, B, A, normalize=False, **kw)
            ctx.close(dus, -sum(d1r), "directionality-swap", "spike_directionality(B,A,normalize=False) must be the negative", rel=1e-12)

        # ---------------- state must not leak between calls (see C01.history_probes)
        if ctx.evals % 3 == 0 and len(a) + len(b) <= 40:
            ctx.count("history_probe")
            prof.y[:] = 9.0
            again = ctx.call(ps.spike_train_order_profile, A, B, _repeat=False, **kw)
            if common.same_axis(ctx, again.x, xr, "order:state-leak:returned-object-shared", "order profile after the caller modified the previously returned profile") and not ambiguous:
                common.arr_exact(ctx, again.y[1:-1], yr, "order:state-leak:returned-object-shared", "order profile y after the caller modified the previously returned profile")
            Tw = te - ts
            ts2, te2 = ts - Tw / 4, te + Tw / 2
            w1 = ps.SpikeTrain(np.array(a, dtype=float), [ts2, te2])
            w2 = ps.SpikeTrain(np.array(b, dtype=float), [ts2, te2])
            nearw = ref.coincidences_ref(a, b, ts2, te2, mt or 0, m, want_ties=True)[4]
            if not (nearw and not dy):
                xw, yw, mpw, d1w, d2w = ref.order_ref(a, b, ts2, te2, mt or 0, m)
                wide = ctx.call(ps.spike_train_order_profile, w1, w2, _repeat=False, **kw)
                if common.same_axis(ctx, wide.x, xw, "order:state-leak:same-spikes-other-interval", "order profile of the same spike times on the wider interval"):
                    common.arr_exact(ctx, wide.y[1:-1], yw, "order:state-leak:same-spikes-other-interval", "order profile y on the wider interval")
                vw = ctx.call(ps.spike_directionality_values, w1, w2, _repeat=False, **kw)
                common.arr_exact(ctx, vw[0], d1w, "order:state-leak:same-spikes-other-interval", "directionality values of train 1 on the wider interval")
                common.arr_exact(ctx, vw[1], d2w, "order:state-leak:same-spikes-other-interval", "directionality values of train 2 on the wider interval")

        # ---------------- multivariate layer: identities between real executions
        if N >= 3:
            mv = ctx.call(ps.spike_directionality_values, sts, **kw)
            if ctx.expect(isinstance(mv, (list, tuple)) and len(mv) == N and
                          all(len(np.asarray(mv[n])) == len(tr[n]) for n in range(N)),
                          "directionality-values-shape", "multivariate values have wrong shape: %s" % common.short(mv)):
                acc = [np.zeros(len(tr[n])) for n in range(N)]
                for i in range(N):
                    for j in range(i + 1, N):
                        pv = ctx.call(ps.spike_directionality_values, sts[i], sts[j], **kw)
                        acc[i] += np.asarray(pv[0])
                        acc[j] += np.asarray(pv[1])
                for n in range(N):
                    common.arr_close(ctx, mv[n], (acc[n] / (N - 1)).tolist(), "directionality-values-multi",
                                     "values of train %d vs mean over the other N-1 trains of bivariate values" % n, rel=1e-12)
        D = ctx.call(ps.spike_directionality_matrix, sts, normalize=False, **kw)
        D = np.asarray(D)
        ctx.count("matrix_checked")
        if ctx.expect(D.shape == (N, N), "matrix-shape", "matrix shape %r for N=%d" % (D.shape, N)):
            ctx.expect(np.all(np.diag(D) == 0), "matrix-diagonal", "non-zero diagonal %r" % (np.diag(D),))
            ctx.expect(np.array_equal(D, -D.T), "matrix-antisymmetry", "matrix is not antisymmetric: %s" % common.short(D.tolist()))
            for i in range(N):
                for j in range(i + 1, N):
                    dij = ctx.call(ps.spike_directionality, sts[i], sts[j], normalize=False, **kw)
                    ctx.close(D[i, j], dij, "matrix-entry", "D[%d,%d] vs spike_directionality(st_%d, st_%d)" % (i, j, i, j), rel=1e-12)
            nsp = sum(len(s) for s in tr)
            if nsp > 0:
                ctx.count("synfire_checked")
                F = ctx.call(ps.spike_train_order, sts, **kw)
                want = 2.0 * float(np.sum(np.triu(D, 1))) / ((N - 1) * nsp)
                ctx.close(F, want, "synfire-indicator", "spike_train_order(list) vs 2*sum(upper triangle)/((N-1)*#spikes)", rel=1e-12)

        # ---------------- indices selections equal the same call on the sub-list
        sub = [sts[i] for i in idx]
        nsel = sum(len(tr[i]) for i in idx)
        p_idx = ctx.call(ps.spike_train_order_profile, sts, indices=common.vary_indices(ctx, idx), **kw)
        p_sub = ctx.call(ps.spike_train_order_profile, sub, **kw)
        self.same_disc(ctx, p_idx, p_sub, "indices:order-profile")
        v_idx = ctx.call(ps.spike_directionality_values, sts, indices=common.vary_indices(ctx, idx), **kw)
        v_sub = ctx.call(ps.spike_directionality_values, sub, **kw)
        if ctx.expect(len(v_idx) == len(v_sub), "indices:directionality-values", "number of arrays %d vs %d" % (len(v_idx), len(v_sub))):
            for q in range(len(v_sub)):
                common.arr_close(ctx, v_idx[q], np.asarray(v_sub[q]).tolist(), "indices:directionality-values",
                                 "values(list, indices=%r)[%d] vs values(sub-list)[%d]" % (idx, q, q), rel=1e-12)
        M_idx = np.asarray(ctx.call(ps.spike_directionality_matrix, sts, indices=common.vary_indices(ctx, idx), normalize=False, **kw))
        M_sub = np.asarray(ctx.call(ps.spike_directionality_matrix, sub, normalize=False, **kw))
        ctx.expect(M_idx.shape == M_sub.shape and np.allclose(M_idx, M_sub, rtol=0, atol=1e-12), "indices:directionality-matrix",
                   "matrix(list, indices=%r)=%s vs matrix(sub-list)=%s" % (idx, common.short(M_idx.tolist()), common.short(M_sub.tolist())))
        if nsel > 0:
            f_idx = ctx.call(ps.spike_train_order, sts, indices=common.vary_indices(ctx, idx), **kw)
            f_sub = ctx.call(ps.spike_train_order, sub, **kw)
            ctx.close(f_idx, f_sub, "indices:spike-train-order", "spike_train_order(list, indices=%r) vs sub-list" % (idx,), rel=1e-12)

    @staticmethod
    def same_disc(ctx, p, q, what):
        if not (len(p.x) == len(q.x) and np.array_equal(p.x, q.x)):
            ctx.violation(what, "event times differ: %s vs %s" % (common.short(p.x.tolist()), common.short(q.x.tolist())))
            return False
        if not (np.allclose(p.y[1:-1], q.y[1:-1], rtol=0, atol=1e-12) and np.array_equal(p.mp[1:-1], q.mp[1:-1])):
            ctx.violation(what, "values differ: y %s vs %s ; mp %s vs %s" % (common.short(p.y.tolist()), common.short(q.y.tolist()),
                                                                            common.short(p.mp.tolist()), common.short(q.mp.tolist())))
            return False
        return True


PROP = Prop()
