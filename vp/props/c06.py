"""C06 Multivariate results are the all-pairs aggregate and ignore list order."""
import random

import numpy as np

from .. import ref, gen
from . import common
from .common import BaseProp
from .c05 import kw_all


def tail_kind(x1, x2):
    """which operand's interior breakpoints run out first when merging (classified from the operands, not from M4)"""
    a = [t for t in x1[1:-1]]
    b = [t for t in x2[1:-1]]
    if not a and not b:
        return "both_single_piece"
    if not a:
        return "op1_single_piece"
    if not b:
        return "op2_single_piece"
    if a[-1] == b[-1]:
        return "end_together"
    return "op2_tail_longer" if a[-1] < b[-1] else "op1_tail_longer"


class Prop(BaseProp):
    id = "C06"
    rule = ("lists of 2..8 (thorough 12) trains with empty and repeated trains x keyword settings; the multivariate "
            "ISI/SPIKE profile is compared at every breakpoint (both one-sided limits) with the exact mean of the "
            "N(N-1)/2 bivariate profiles returned by the same API, the Sync profile with per-event sums, scalars with "
            "mean / pooled ratio, matrices entry-wise (symmetry, diagonal); everything is recomputed on random "
            "permutations of the list. distinct = interleaving words incl. keyword regime")
    budget = {"quick": 420, "thorough": 27000}
    must_see = ["N>=5", "repeated_train", "empty_train_in_list", "permutation_checked", "matrix_checked",
                "tail:op1_tail_longer", "tail:op2_tail_longer", "tail:end_together", "sync_profile_checked",
                "RI_true", "max_tau_positive", "mrts_positive", "indices_selection", "indices_non_prefix", "interval_given", "interval_list_given", "interval_with_a_silent_pair_among_active_ones"]
    arm_files = [("pyspike/generic.py", None),
                 ("pyspike/cython/python_backend.py", ["add_piece_wise_const_python", "add_piece_wise_lin_python",
                                                       "add_discrete_function_python"])]
    assumptions = ["pair profiles and pair distances come from the same API (their correctness is C01-C03's job); the "
                   "aggregate is recomputed with the exact function-algebra model (vp/ref.py PWC/PWL/DISC)"]

    def cases(self, rng, tier, config, k, K, n):
        for case in common.list_stream(rng, tier, n, k, K, kw_fn=kw_all, nmin=2,
                                       nmax_trains=7 if tier == "quick" else 12):
            if isinstance(case["kw"]["MRTS"], str):
                # 'auto' pools the whole list in the multivariate call but only the pair in a bivariate call
                # (C15 describes this), so the all-pairs identity is stated for explicit MRTS
                case["kw"]["MRTS"] = 0
            case["perm_seed"] = rng.randrange(1 << 30)
            N = len(case["trains"])
            case["idx"] = common.pick_indices(rng, N) if (N >= 3 and rng.random() < 0.3) else None
            if rng.random() < 0.5:
                bps = sorted({t for s in case["trains"] for t in s})
                a, b, kd = gen.pick_interval(rng, case["ts"], case["te"], bps, kind=rng.choice([None, None, "full"]))
                case["interval"] = [a, b]
                if rng.random() < 0.3:
                    case["interval"] = gen.pick_interval_list(rng, case["ts"], case["te"], bps)
            else:
                case["interval"] = None
            yield case

    def check(self, case, ctx):
        ps = ctx.ps
        common.list_classes(ctx, case)
        tr = case["trains"]
        ts, te = case["ts"], case["te"]
        full = ctx.trains(case)
        idx = case.get("idx")
        sel = {}
        if idx is not None:
            # the multivariate calls receive the whole list plus `indices`; the pair calls receive the selected trains
            ctx.count("indices_selection")
            common.idx_classes(ctx, idx, len(tr))
            tr = [tr[i] for i in idx]
            sts = [full[i] for i in idx]
            sel = {"indices": common.vary_indices(ctx, idx)}
        else:
            sts = full
        N = len(tr)
        kwc = case["kw"]
        kw_isi = {"MRTS": kwc["MRTS"]}
        kw_spk = {"MRTS": kwc["MRTS"], "RI": kwc["RI"]}
        kw_syn = {"MRTS": kwc["MRTS"], "max_tau": kwc["max_tau"]}
        pairs = [(i, j) for i in range(N) for j in range(i + 1, N)]
        M = len(pairs)
        ctx.sample({"trains": tr, "edges": [ts, te], "kw": kwc})

        # ---------------- ISI
        pp = [ctx.call(ps.isi_profile, sts[i], sts[j], **kw_isi) for i, j in pairs]
        model = ref.PWC(pp[0].x, pp[0].y)
        for q in pp[1:]:
            ctx.count("tail:" + tail_kind([float(v) for v in model.X], q.x.tolist()))
            model.add(ref.PWC(q.x, q.y))
        mp_ = ctx.call(ps.isi_profile, full, **sel, **kw_isi)
        if common.same_axis(ctx, mp_.x, model.X, "isi-multi-breakpoints", "multivariate isi_profile.x vs union of pair breakpoints"):
            common.arr_close(ctx, mp_.y, [v / M for v in model.Y], "isi-multi-profile", "multivariate isi_profile.y vs mean of pair profiles", rel=1e-10)
        dpair = [ctx.call(ps.isi_distance, sts[i], sts[j], **kw_isi) for i, j in pairs]
        dm = ctx.call(ps.isi_distance, full, **sel, **kw_isi)
        ctx.close(dm, sum(dpair) / M, "isi-multi-distance", "isi_distance(list) vs mean of pair distances", rel=1e-12)
        isi_pairs = dict(zip(pairs, dpair))

        # ---------------- SPIKE
        pp = [ctx.call(ps.spike_profile, sts[i], sts[j], **kw_spk) for i, j in pairs]
        model = ref.PWL(pp[0].x, pp[0].y1, pp[0].y2)
        for q in pp[1:]:
            model.add(ref.PWL(q.x, q.y1, q.y2))
        mp_ = ctx.call(ps.spike_profile, full, **sel, **kw_spk)
        if common.same_axis(ctx, mp_.x, model.X, "spike-multi-breakpoints", "multivariate spike_profile.x vs union of pair breakpoints"):
            common.arr_close(ctx, mp_.y1, [v / M for v in model.Y1], "spike-multi-profile", "multivariate spike_profile.y1 vs mean of pair profiles", rel=1e-10)
            common.arr_close(ctx, mp_.y2, [v / M for v in model.Y2], "spike-multi-profile", "multivariate spike_profile.y2 vs mean of pair profiles", rel=1e-10)
        dpair = [ctx.call(ps.spike_distance, sts[i], sts[j], **kw_spk) for i, j in pairs]
        dm = ctx.call(ps.spike_distance, full, **sel, **kw_spk)
        ctx.close(dm, sum(dpair) / M, "spike-multi-distance", "spike_distance(list) vs mean of pair distances", rel=1e-12)
        spk_pairs = dict(zip(pairs, dpair))

        # ---------------- SPIKE-Sync
        ctx.count("sync_profile_checked")
        pp = [ctx.call(ps.spike_sync_profile, sts[i], sts[j], **kw_syn) for i, j in pairs]
        dmodel = ref.DISC(pp[0].x, pp[0].y, pp[0].mp)
        for q in pp[1:]:
            dmodel.add(ref.DISC(q.x, q.y, q.mp))
        sp = ctx.call(ps.spike_sync_profile, full, **sel, **kw_syn)
        times = dmodel.times()
        if common.same_axis(ctx, sp.x, [ts] + times + [te], "sync-multi-event-times", "multivariate spike_sync_profile.x"):
            common.arr_exact(ctx, sp.y[1:-1], [dmodel.ev[t][0] for t in times], "sync-multi-profile", "multivariate sync y vs summed pair coincidences")
            common.arr_exact(ctx, sp.mp[1:-1], [dmodel.ev[t][1] for t in times], "sync-multi-profile", "multivariate sync mp vs summed pair multiplicities")
        sy, sm = dmodel.sums()
        sv = ctx.call(ps.spike_sync, full, **sel, **kw_syn)
        ctx.close(sv, (sy / sm) if sm else 1.0, "sync-multi-value", "spike_sync(list) vs total coincidences / total multiplicity", rel=1e-12)
        syn_pairs = {}
        for (i, j), q in zip(pairs, pp):
            a, b = ref.discrete_sums(q.x, q.y, q.mp, None, None)
            syn_pairs[(i, j)] = float(a / b) if b else 1.0

        # ---------------- matrices
        ctx.count("matrix_checked")
        for name, fn, kw, vals, diag in (("isi", ps.isi_distance_matrix, kw_isi, isi_pairs, 0.0),
                                         ("spike", ps.spike_distance_matrix, kw_spk, spk_pairs, 0.0),
                                         ("sync", ps.spike_sync_matrix, kw_syn, syn_pairs, 1.0)):
            Mx = np.asarray(ctx.call(fn, full, **sel, **kw))
            if not ctx.expect(Mx.shape == (N, N), name + "-matrix-shape", "shape %r" % (Mx.shape,)):
                continue
            ctx.expect(np.all(np.diag(Mx) == diag), name + "-matrix-diagonal", "diagonal %r, expected %r" % (np.diag(Mx).tolist(), diag))
            ctx.expect(np.array_equal(Mx, Mx.T), name + "-matrix-symmetry", "matrix not symmetric")
            for (i, j), v in vals.items():
                ctx.close(Mx[i, j], v, name + "-matrix-entry", "%s matrix[%d,%d] vs bivariate value" % (name, i, j), rel=1e-12)

        # ---------------- the same with an averaging interval: matrix entries and multivariate scalars vs bivariate values
        iv = case.get("interval")
        if iv is not None:
            ctx.count("interval_given")
            ivt = (iv[0], iv[1])
            wins = [ivt]
            if isinstance(iv[0], (list, tuple)):
                ivt = [tuple(w) for w in iv]
                wins = ivt
                ctx.count("interval_list_given")
                if len(iv) >= 3:
                    ctx.count("interval_list_3+")
            for name, fnm, fns, kw, diag, pooled in (("isi", ps.isi_distance_matrix, ps.isi_distance, kw_isi, 0.0, False),
                                                     ("spike", ps.spike_distance_matrix, ps.spike_distance, kw_spk, 0.0, False),
                                                     ("sync", ps.spike_sync_matrix, ps.spike_sync, kw_syn, 1.0, True)):
                Mx = np.asarray(ctx.call(fnm, full, interval=ivt, **sel, **kw))
                vals = {}
                for (i, j) in pairs:
                    vals[(i, j)] = ctx.call(fns, sts[i], sts[j], interval=ivt, **kw)
                if ctx.expect(Mx.shape == (N, N), name + "-matrix-shape", "shape %r" % (Mx.shape,)):
                    for (i, j), v in vals.items():
                        ctx.close(Mx[i, j], v, name + "-matrix-entry:interval", "%s matrix[%d,%d] with interval %r vs bivariate value" % (name, i, j, iv), rel=1e-12)
                    ctx.expect(np.all(np.diag(Mx) == diag), name + "-matrix-diagonal", "diagonal with interval")
                if not pooled:
                    dm = ctx.call(fns, full, interval=ivt, **sel, **kw)
                    ctx.close(dm, sum(vals.values()) / M, name + "-multi-distance:interval", "%s distance(list, interval=%r) vs mean of pair distances" % (name, iv), rel=1e-12)
                else:
                    # SPIKE-Sync of the list over the window(s) = coincidences of all pairs inside / multiplicities of all
                    # pairs inside (pairs that are silent inside contribute nothing); 1 if nothing is inside at all
                    sy = sm = 0
                    silent_pair = False
                    for (i, j) in pairs:
                        pp = ctx.call(ps.spike_sync_profile, sts[i], sts[j], **kw)
                        py_, pm_ = 0, 0
                        for (u, v) in wins:
                            a_, b_ = ref.discrete_sums(pp.x, pp.y, pp.mp, u, v)
                            py_ += a_
                            pm_ += b_
                        silent_pair = silent_pair or pm_ == 0
                        sy += py_
                        sm += pm_
                    if silent_pair and sm > 0:
                        ctx.count("interval_with_a_silent_pair_among_active_ones")
                    dm = ctx.call(fns, full, interval=ivt, **sel, **kw)
                    ctx.close(dm, float(sy / sm) if sm else 1.0, "sync-multi-value:interval",
                              "spike_sync(list, interval=%r) vs pooled coincidences / multiplicities of all pairs inside" % (iv,), rel=1e-12)

        # ---------------- permutations
        if N >= 3:
            r2 = random.Random(case["perm_seed"])
            base = {"isi": ctx.call(ps.isi_profile, full, **sel, **kw_isi), "spike": ctx.call(ps.spike_profile, full, **sel, **kw_spk), "sync": sp}
            based = {"isi": ctx.call(ps.isi_distance, full, **sel, **kw_isi), "spike": ctx.call(ps.spike_distance, full, **sel, **kw_spk), "sync": sv}
            for _ in range(2):
                perm = list(range(N))
                r2.shuffle(perm)
                ctx.count("permutation_checked")
                pst = [sts[i] for i in perm]
                pi = ctx.call(ps.isi_profile, pst, **kw_isi)
                if ctx.expect(np.array_equal(pi.x, base["isi"].x), "isi-permutation", "breakpoints change under permutation %r" % perm):
                    ctx.expect(np.allclose(pi.y, base["isi"].y, rtol=0, atol=1e-12), "isi-permutation", "isi_profile changes under permutation %r" % perm)
                pk = ctx.call(ps.spike_profile, pst, **kw_spk)
                if ctx.expect(np.array_equal(pk.x, base["spike"].x), "spike-permutation", "breakpoints change under permutation %r" % perm):
                    ctx.expect(np.allclose(pk.y1, base["spike"].y1, rtol=0, atol=1e-12) and np.allclose(pk.y2, base["spike"].y2, rtol=0, atol=1e-12),
                               "spike-permutation", "spike_profile changes under permutation %r" % perm)
                py_ = ctx.call(ps.spike_sync_profile, pst, **kw_syn)
                ctx.expect(np.array_equal(py_.x, sp.x) and np.array_equal(py_.y[1:-1], sp.y[1:-1]) and np.array_equal(py_.mp[1:-1], sp.mp[1:-1]),
                           "sync-permutation", "spike_sync_profile changes under permutation %r" % perm)
                ctx.close(ctx.call(ps.isi_distance, pst, **kw_isi), based["isi"], "isi-permutation", "isi_distance under permutation", rel=1e-12)
                ctx.close(ctx.call(ps.spike_distance, pst, **kw_spk), based["spike"], "spike-permutation", "spike_distance under permutation", rel=1e-12)
                ctx.close(ctx.call(ps.spike_sync, pst, **kw_syn), based["sync"], "sync-permutation", "spike_sync under permutation", rel=1e-12)


PROP = Prop()
