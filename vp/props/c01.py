"""C01 ISI-profile equals the ISI-distance definition for every pair of trains."""
import numpy as np

from .. import ref, gen
from . import common
from .common import BaseProp


class Prop(BaseProp):
    id = "C01"
    rule = ("pairs from W1 dyadic grid / W2 hostile floats / W3 degenerate product (/ W4 interleaving sweep in "
            "thorough) x MRTS regimes; each execution of isi_profile and isi_distance is compared with the exact "
            "rational model (breakpoints exactly, values 1e-9). distinct = distinct interleaving words "
            "(merged owner sequence + edge flags + MRTS regime) among pairs with >=1 spike per train and >=3 spikes")
    budget = {"quick": 3200, "thorough": 1200000}
    must_see = ["empty_train", "one_spike_train", "spike_on_t_start", "spike_on_t_end", "shared_interior_spike",
                "shared_spike_on_t_start", "shared_spike_on_t_end", "mrts_below_all_isis", "mrts_between_isis",
                "mrts_above_all_isis", "one_spike_train_on_t_start", "one_spike_train_on_t_end"]
    must_contracts = ["inv:PieceWiseConstFunc"]
    arm_files = [("pyspike/cython/python_backend.py", ["isi_distance_python"])]
    assumptions = ["reference: exact rational evaluation of the statement (vp/ref.py isi_profile_ref)",
                   "emulated configuration = .pyx algorithms run through a syntactic transliteration (DESIGN section 5)"]

    def cases(self, rng, tier, config, k, K, n):
        return common.pair_stream(rng, tier, n, k, K, kw_fn=common.kw_isi)

    def check(self, case, ctx):
        ps = ctx.ps
        common.pair_classes(ctx, case)
        st1, st2 = ctx.trains(case)
        m = case["kw"]["MRTS"]
        kw = {} if m is None else {"MRTS": m}
        prof = ctx.call(ps.isi_profile, st1, st2, **kw)
        ctx.sample({"trains": case["trains"], "edges": [case["ts"], case["te"]], "MRTS": m,
                    "profile_x": prof.x, "profile_y": prof.y})
        if not ctx.expect(isinstance(prof, ps.PieceWiseConstFunc), "wrong-type", "isi_profile returned %r" % type(prof)):
            return
        xr, yr = ref.isi_profile_ref(case["trains"][0], case["trains"][1], case["ts"], case["te"], m or 0)
        ok = common.same_axis(ctx, prof.x, xr, "isi-breakpoints", "isi_profile")
        if ok:
            common.arr_close(ctx, prof.y, yr, "isi-values", "isi_profile.y")
        T = xr[-1] - xr[0]
        avg = sum(y * (b - a) for y, a, b in zip(yr, xr, xr[1:])) / T
        d = ctx.call(ps.isi_distance, st1, st2, **kw)
        ctx.close(d, avg, "isi-distance", "isi_distance vs exact average of the reference profile")
        if case["trains"][0] and case["trains"][0][-1] == case["te"] or case["trains"][1] and case["trains"][1][-1] == case["te"]:
            ctx.count("last_spike_on_t_end")


PROP = Prop()
