"""C01 ISI-profile equals the ISI-distance definition for every pair of trains."""
import numpy as np

from .. import ref, gen
from . import common
from .common import BaseProp


class Prop(BaseProp):
    id = "C01"
    rule = ("pairs from W1 dyadic grid / W2 hostile floats / W3 degenerate product (/ W4 interleaving sweep in "
            "thorough) x MRTS regimes; each execution of isi_profile and isi_distance is compared with the exact "
            "rational model (breakpoints exactly, values 1e-9). distinct = distinct interleaving words "
            "(merged owner sequence + edge flags + MRTS regime) among pairs with >=1 spike per train and >=3 spikes")
    budget = {"quick": 3200, "thorough": 1200000}
    must_see = ["empty_train", "one_spike_train", "spike_on_t_start", "spike_on_t_end", "shared_interior_spike",
                "shared_spike_on_t_start", "shared_spike_on_t_end", "mrts_below_all_isis", "mrts_between_isis",
                "mrts_above_all_isis", "one_spike_train_on_t_start", "one_spike_train_on_t_end", "history_probe", "src_W13"]
    must_contracts = ["inv:PieceWiseConstFunc"]
    arm_files = [("pyspike/cython/python_backend.py", ["isi_distance_python"])]
    assumptions = ["reference: exact rational evaluation of the statement (vp/ref.py isi_profile_ref)",
                   "emulated configuration = .pyx algorithms run through a syntactic transliteration (DESIGN section 5)"]

    def cases(self, rng, tier, config, k, K, n):
        return common.pair_stream(rng, tier, n, k, K, kw_fn=common.kw_isi)

    def check(self, case, ctx):
        ps = ctx.ps
        common.pair_classes(ctx, case)
        st1, st2 = ctx.trains(case)
        m = case["kw"]["MRTS"]
        kw = {} if m is None else {"MRTS": m}
        prof = ctx.call(ps.isi_profile, st1, st2, **kw)
        ctx.sample({"trains": case["trains"], "edges": [case["ts"], case["te"]], "MRTS": m,
                    "profile_x": prof.x, "profile_y": prof.y})
        if not ctx.expect(isinstance(prof, ps.PieceWiseConstFunc), "wrong-type", "isi_profile returned %r" % type(prof)):
            return
        xr, yr = ref.isi_profile_ref(case["trains"][0], case["trains"][1], case["ts"], case["te"], m or 0)
        ok = common.same_axis(ctx, prof.x, xr, "isi-breakpoints", "isi_profile")
        if ok:
            common.arr_close(ctx, prof.y, yr, "isi-values", "isi_profile.y")
        T = xr[-1] - xr[0]
        avg = sum(y * (b - a) for y, a, b in zip(yr, xr, xr[1:])) / T
        d = ctx.call(ps.isi_distance, st1, st2, **kw)
        ctx.close(d, avg, "isi-distance", "isi_distance vs exact average of the reference profile")
        if case["trains"][0] and case["trains"][0][-1] == case["te"] or case["trains"][1] and case["trains"][1][-1] == case["te"]:
            ctx.count("last_spike_on_t_end")
        if ctx.evals % 3 == 0:
            self.history_probes(case, ctx, prof, kw, xr, yr)

    def history_probes(self, case, ctx, prof, kw, xr, yr):
        """state must not leak between calls: (a) the returned object belongs to the caller - scribbling on it must not
        change what the next call returns; (b) the same spike arrays on a different recording interval, evaluated right
        after, must be judged on their own interval (a result cache keyed on the spikes alone would show)"""
        ps = ctx.ps
        ctx.count("history_probe")
        st1, st2 = ctx.trains(case)
        prof.y[:] = -7.0
        prof.x[:] = prof.x[::-1].copy()
        again = ctx.call(ps.isi_profile, st1, st2, _repeat=False, **kw)
        if common.same_axis(ctx, again.x, xr, "isi:state-leak:returned-object-shared", "isi_profile after the caller modified the previously returned profile"):
            common.arr_close(ctx, again.y, yr, "isi:state-leak:returned-object-shared", "isi_profile.y after the caller modified the previously returned profile")
        ts, te = case["ts"], case["te"]
        T = te - ts
        ts2, te2 = ts - T / 4, te + T / 2
        w1 = ps.SpikeTrain(np.array(case["trains"][0], dtype=float), [ts2, te2])
        w2 = ps.SpikeTrain(np.array(case["trains"][1], dtype=float), [ts2, te2])
        wide = ctx.call(ps.isi_profile, w1, w2, _repeat=False, **kw)
        xw, yw = ref.isi_profile_ref(case["trains"][0], case["trains"][1], ts2, te2, kw.get("MRTS", 0) or 0)
        if common.same_axis(ctx, wide.x, xw, "isi:state-leak:same-spikes-other-interval", "isi_profile of the same spike times on the wider interval [%r,%r]" % (ts2, te2)):
            common.arr_close(ctx, wide.y, yw, "isi:state-leak:same-spikes-other-interval", "isi_profile.y on the wider interval")
        d = ctx.call(ps.isi_distance, w1, w2, _repeat=False, **kw)
        avg = sum(y * (b - a) for y, a, b in zip(yw, xw, xw[1:])) / (xw[-1] - xw[0])
        ctx.close(d, avg, "isi:state-leak:same-spikes-other-interval", "isi_distance of the same spike times on the wider interval")


PROP = Prop()
