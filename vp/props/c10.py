"""C10 Integral, average and evaluation of piecewise functions are exact."""
import math

import numpy as np

from .. import ref, gen
from . import common
from .common import BaseProp
from .c09 import build, model_of


def near_times(rng, x, ts, te):
    """evaluation times: breakpoints, piece interiors, and times extremely close to breakpoints"""
    T = te - ts
    out = []
    for _ in range(rng.randint(3, 7)):
        r = rng.random()
        if r < 0.30:
            t = rng.choice(x)
        elif r < 0.55:
            k = rng.randrange(len(x) - 1)
            t = x[k] + (x[k + 1] - x[k]) * rng.choice([0.5, 0.25, 0.75, rng.random()])
        elif r < 0.75:
            b = rng.choice(x)
            t = math.nextafter(b, rng.choice([-math.inf, math.inf]))
        else:
            b = rng.choice(x)
            t = b + rng.choice([-1, 1]) * T * 10.0 ** rng.choice([-12, -9, -7, -5, -3])
        if ts <= t <= te:
            out.append(t)
    return out or [ts]


def make_case(rng, tier):
    kind = rng.choice(["pwc", "pwl"])
    ts, te, grid = gen.func_setting(rng)
    dyadic = rng.random() < 0.7
    intv = rng.random() < 0.12
    if kind == "pwc":
        f = gen.pwc_func(rng, ts, te, grid, int_valued=intv, dyadic=dyadic)
        g = gen.pwc_func(rng, ts, te, grid, shared=f["x"][1:-1], dyadic=dyadic)
    else:
        f = gen.pwl_func(rng, ts, te, grid, dyadic=dyadic, int_valued=intv)
        g = gen.pwl_func(rng, ts, te, grid, shared=f["x"][1:-1], dyadic=dyadic)
    steps = []
    x = list(f["x"])
    for _ in range(rng.randint(3, 8)):
        r = rng.random()
        if r < 0.30:
            a, b, kd = gen.pick_interval(rng, ts, te, x)
            steps.append(["integral", [a, b], kd])
        elif r < 0.36:
            steps.append(["integral", None, "none"])
        elif r < 0.50:
            a, b, kd = gen.pick_interval(rng, ts, te, x)
            steps.append(["avrg", [a, b], kd])
        elif r < 0.54:
            steps.append(["avrg", None, "none"])
        elif r < 0.64:
            ivs = []
            for _ in range(rng.choice([1, 2, 2, 3])):          # a list holding a single interval is a list of intervals, too
                a, b, _k = gen.pick_interval(rng, ts, te, x)
                ivs.append([a, b])
            steps.append(["avrg_list", ivs])
        elif r < 0.72:
            a, b, kd = gen.pick_interval(rng, ts, te, x)
            m = rng.choice([t for t in x if a < t < b] + [(a + b) / 2])
            if a < m < b:          # (a, b adjacent doubles: the midpoint rounds onto an end and [m, b] would be empty)
                steps.append(["additive", [a, m, b]])
            else:
                steps.append(["integral", [a, b], kd])
        elif r < 0.80:
            steps.append(["eval", near_times(rng, x, ts, te)])
        elif r < 0.84:
            # all-integer evaluation times (python ints), as users write f([0, 1, 2])
            lo, hi = int(math.ceil(ts)), int(math.floor(te))
            if hi >= lo:
                steps.append(["eval", [rng.randint(lo, hi) for _ in range(rng.randint(2, 5))], "int"])
            else:
                steps.append(["eval", near_times(rng, x, ts, te)])
        elif r < 0.88:
            steps.append(["plot"])
        elif r < 0.95:
            steps.append(["mul", rng.choice([0.5, 2.0, -1.0, 3.0, 0.25])])
        else:
            steps.append(["add"])
            x = sorted(set(x) | set(g["x"]))
    return {"kind": kind, "ts": ts, "te": te, "dyadic": dyadic, "int_valued": intv, "funcs": [f, g], "steps": steps}


class Prop(BaseProp):
    id = "C10"
    configs = ("fallback",)
    rule = ("W8 piecewise-constant / -linear functions (1..13 pieces, positive and negative values, integer-valued, "
            "dyadic and non-dyadic breakpoints) x mini-histories of 3..8 steps over integral / avrg (single interval, "
            "None, list of intervals) / adjacent-interval additivity / evaluation at single times and lists (on "
            "breakpoints, inside pieces, 1 ulp and 1e-12..1e-3 next to breakpoints) / get_plottable_data, interleaved "
            "with mul_scalar and add so that stale cached state would show; every answer is compared with the exact "
            "model. W6 interval positions: ends on breakpoints, between, same piece, on x0 / xn. distinct = (kind, "
            "#pieces, step kinds with interval-position kinds)")
    budget = {"quick": 4800, "thorough": 1800000}
    must_see = ["kind_pwc", "kind_pwl", "ikind_same_piece", "ikind_bp_bp", "ikind_from_start", "ikind_to_end",
                "ikind_half_half", "single_piece_function", "negative_values", "eval_on_interior_breakpoint",
                "eval_1ulp_from_breakpoint", "eval_list_with_breakpoint", "query_after_mutation", "avrg_list", "additive",
                "plot", "int_valued", "eval_integer_times", "avrg_list_of_one"]
    must_contracts = ["inv:PieceWiseConstFunc", "inv:PieceWiseLinFunc"]
    arm_files = [("pyspike/PieceWiseConstFunc.py", None), ("pyspike/PieceWiseLinFunc.py", None)]
    assumptions = ["only the pure-Python classes are involved (no backend kernel), hence one configuration",
                   "integral tolerance 1e-9*max(T, sum |y_k| dx_k over touched pieces): the implementation obtains partial "
                   "pieces by subtraction; avrg tolerance = that / (b-a)"]

    def cases(self, rng, tier, config, k, K, n):
        for _ in range(n):
            yield make_case(rng, tier)

    def check(self, case, ctx):
        ps = ctx.ps
        kind = case["kind"]
        ctx.count("kind_" + kind)
        f, g = case["funcs"]
        ts, te = case["ts"], case["te"]
        T = te - ts
        obj = ctx.call(build, ps, kind, f, _name="constructor")
        mod = model_of(kind, f)
        if len(f["x"]) == 2:
            ctx.count("single_piece_function")
        if case["int_valued"]:
            ctx.count("int_valued")
        vals = (f["y"] if kind == "pwc" else f["y1"] + f["y2"])
        if any(v < 0 for v in vals):
            ctx.count("negative_values")
        ctx.word((kind, len(f["x"]), [(s[0], s[2] if len(s) > 2 and isinstance(s[2], str) else "") for s in case["steps"]]), True)
        ctx.sample(case)
        mutated = False
        cname = "PieceWiseConstFunc" if kind == "pwc" else "PieceWiseLinFunc"

        def mass(a, b):
            X = [float(v) for v in mod.X]
            if kind == "pwc":
                return ref.touched_mass_pwc(X, [float(v) for v in mod.Y], a, b)
            return ref.touched_mass_pwl(X, [float(v) for v in mod.Y1], [float(v) for v in mod.Y2], a, b)

        def scale():
            vs = mod.Y if kind == "pwc" else (mod.Y1 + mod.Y2)
            return max([1.0] + [abs(float(v)) for v in vs])

        for step in case["steps"]:
            op = step[0]
            if mutated and op not in ("mul", "add"):
                ctx.count("query_after_mutation")
            tag = "%s:%s" % (kind, op)
            if op == "integral":
                iv = step[1]
                ctx.count("ikind_" + step[2])
                a, b = (ts, te) if iv is None else iv
                got = ctx.call(obj.integral, None if iv is None else (a, b), _name=cname + ".integral")
                want = mod.integral(a, b)
                tol = 1e-9 * max(T, mass(a, b))
                ctx.expect(abs(float(got) - float(want)) <= tol, tag + ":" + step[2], "integral(%r)=%r, exact %r (tol %g)" % (iv, float(got), float(want), tol))
                if iv is None:
                    full = ctx.call(obj.integral, (ts, te), _name=cname + ".integral")
                    ctx.expect(abs(float(full) - float(got)) <= tol, tag + ":none-vs-full", "integral()=%r but integral((x0,xn))=%r" % (float(got), float(full)))
            elif op == "avrg":
                iv = step[1]
                ctx.count("ikind_" + step[2])
                a, b = (ts, te) if iv is None else iv
                got = ctx.call(obj.avrg, None if iv is None else (a, b), _name=cname + ".avrg")
                want = mod.integral(a, b) / (ref.fr(b) - ref.fr(a))
                tol = 1e-9 * max(T, mass(a, b)) / (b - a)
                ctx.expect(abs(float(got) - float(want)) <= tol, tag + ":" + step[2], "avrg(%r)=%r, exact %r (tol %g)" % (iv, float(got), float(want), tol))
            elif op == "avrg_list":
                ctx.count("avrg_list")
                if len(step[1]) == 1:
                    ctx.count("avrg_list_of_one")
                ivs = [tuple(v) for v in step[1]]
                got = ctx.call(obj.avrg, ivs, _name=cname + ".avrg")
                tot = sum(mod.integral(a, b) for a, b in ivs)
                ln = sum(ref.fr(b) - ref.fr(a) for a, b in ivs)
                tol = 1e-9 * sum(max(T, mass(a, b)) for a, b in ivs) / float(ln)
                ctx.expect(abs(float(got) - float(tot / ln)) <= tol, tag, "avrg(%r)=%r, exact summed integrals / summed lengths %r" % (ivs, float(got), float(tot / ln)))
            elif op == "additive":
                ctx.count("additive")
                a, m, b = step[1]
                if not (a < m < b):
                    continue
                i1 = ctx.call(obj.integral, (a, m), _name=cname + ".integral")
                i2 = ctx.call(obj.integral, (m, b), _name=cname + ".integral")
                i3 = ctx.call(obj.integral, (a, b), _name=cname + ".integral")
                tol = 3e-9 * max(T, mass(a, b))
                ctx.expect(abs(float(i1) + float(i2) - float(i3)) <= tol, tag, "integral[%r,%r]+integral[%r,%r]=%r but integral[%r,%r]=%r" % (a, m, m, b, float(i1) + float(i2), a, b, float(i3)))
            elif op == "eval":
                ts_ = step[1]
                if len(step) > 2:
                    ctx.count("eval_integer_times")
                X = [float(v) for v in mod.X]
                singles = []
                for t in ts_:
                    if t in X[1:-1]:
                        ctx.count("eval_on_interior_breakpoint")
                    if any(t != b and (t == math.nextafter(b, math.inf) or t == math.nextafter(b, -math.inf)) for b in X):
                        ctx.count("eval_1ulp_from_breakpoint")
                    v = ctx.call(obj, t, _name=cname + ".__call__")
                    want = mod.value(t)
                    singles.append(v)
                    ctx.expect(abs(float(v) - float(want)) <= 1e-9 * scale(), tag + ":single", "f(%r)=%r, expected %r" % (t, float(v), float(want)))
                if any(t in X[1:-1] for t in ts_):
                    ctx.count("eval_list_with_breakpoint")
                vs = ctx.call(obj, list(ts_), _name=cname + ".__call__(list)")
                if ctx.expect(len(np.asarray(vs)) == len(ts_), tag + ":list", "f(list) returned %d values for %d times" % (len(np.asarray(vs)), len(ts_))):
                    for t, v, s in zip(ts_, np.asarray(vs, dtype=float).tolist(), singles):
                        want = mod.value(t)
                        ctx.expect(abs(v - float(want)) <= 1e-9 * scale(), tag + ":list", "f([..%r..])=%r, expected %r (single-time call gave %r)" % (t, v, float(want), float(s)))
            elif op == "plot":
                ctx.count("plot")
                xp, yp = ctx.call(obj.get_plottable_data, _name=cname + ".get_plottable_data")
                X = [float(v) for v in mod.X]
                wx = [X[0]]
                for t in X[1:-1]:
                    wx += [t, t]
                wx.append(X[-1])
                if kind == "pwc":
                    wy = [float(v) for v in mod.Y for _ in (0, 1)]
                else:
                    wy = [float(v) for pair in zip(mod.Y1, mod.Y2) for v in pair]
                ctx.expect(np.asarray(xp, dtype=float).tolist() == wx, tag + ":x", "plottable x %s, expected %s" % (common.short(list(xp)), common.short(wx)))
                ctx.expect(len(yp) == len(wy) and np.allclose(np.asarray(yp, dtype=float), wy, rtol=0, atol=1e-9 * scale()), tag + ":y",
                           "plottable y %s, expected %s" % (common.short(list(yp)), common.short(wy)))
            elif op == "mul":
                ctx.mcall(obj, "mul_scalar", step[1])
                mod.mul(step[1])
                mutated = True
            elif op == "add":
                ctx.mcall(obj, "add", ctx.call(build, ps, kind, g, _name="constructor"))
                mod.add(model_of(kind, g))
                mutated = True


PROP = Prop()
