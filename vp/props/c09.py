"""C09 Adding piecewise profiles is pointwise addition on the merged support (history vs executable model)."""
import numpy as np

from .. import ref, gen
from . import common
from .common import BaseProp
from .c06 import tail_kind


def build(ps, kind, f):
    if kind == "pwc":
        return ps.PieceWiseConstFunc(np.array(f["x"]), np.array(f["y"]))
    return ps.PieceWiseLinFunc(np.array(f["x"]), np.array(f["y1"]), np.array(f["y2"]))


def model_of(kind, f):
    if kind == "pwc":
        return ref.PWC(f["x"], f["y"])
    return ref.PWL(f["x"], f["y1"], f["y2"])


def arrays(kind, o):
    return [("x", o.x), ("y", o.y)] if kind == "pwc" else [("x", o.x), ("y1", o.y1), ("y2", o.y2)]


def compare(ctx, kind, obj, mod, what, label):
    X = [float(v) for v in mod.X]
    got = np.asarray(obj.x, dtype=float).tolist()
    if got != X:
        ctx.violation(what + ":breakpoints", "%s: breakpoints %s, expected the strictly increasing union %s" % (label, common.short(got), common.short(X)))
        return False
    cols = [("y", mod.Y)] if kind == "pwc" else [("y1", mod.Y1), ("y2", mod.Y2)]
    scale = max([1.0] + [abs(float(v)) for _, c in cols for v in c])
    for name, want in cols:
        g = np.asarray(getattr(obj, name), dtype=float).tolist()
        if len(g) != len(want):
            ctx.violation(what + ":values", "%s: %s has length %d, expected %d" % (label, name, len(g), len(want)))
            return False
        mass = getattr(mod, "A", None) if kind == "pwc" else None
        for k, (a, b) in enumerate(zip(g, want)):
            # constant pieces: judged piece by piece against what was summed up on that piece
            sc = scale if mass is None else max(1.0, float(mass[k]))
            if not (abs(a - float(b)) <= 1e-9 * sc):
                ctx.violation(what + ":values", "%s: %s[%d]=%r, expected %r (piece [%r,%r])" % (label, name, k, a, float(b), X[k], X[k + 1]))
                return False
    return True


class Prop(BaseProp):
    id = "C09"
    configs = ("fallback", "emulated")
    rule = ("W8 histories: pools of 2-4 random piecewise-constant / piecewise-linear functions on a common interval "
            "(shared breakpoints, single-piece operands, unequal tails, integer-valued constant functions as psth "
            "produces, dyadic and non-dyadic breakpoints) and random sequences of 1..8 (thorough 12) operations "
            "add / mul_scalar / copy; after every operation the receiving object, and at the end every object of the "
            "pool, is compared with an exact executable model (breakpoints exactly, one-sided limits and integral 1e-9); "
            "operands are byte-compared before/after, copies checked for shared memory, a+b vs b+a and two association "
            "orders compared. distinct = (kind, breakpoint interleaving word of the pool, operation sequence)")
    budget = {"quick": 2800, "thorough": 320000}
    must_see = ["kind_pwc", "kind_pwl", "bp_only_in_op1", "bp_only_in_op2", "bp_shared", "tail:op1_tail_longer",
                "tail:op2_tail_longer", "tail:end_together", "tail:op1_single_piece", "tail:op2_single_piece",
                "identical_breakpoints", "history_len>=5", "int_valued_pwc", "int_valued_pwl", "copy_op", "mul_op", "self_add",
                "commutativity_checked", "average_profile_checked", "shared_constructor_array"]
    must_contracts = ["inv:PieceWiseConstFunc", "inv:PieceWiseLinFunc"]
    arm_files = [("pyspike/cython/python_backend.py", ["add_piece_wise_const_python", "add_piece_wise_lin_python"])]
    assumptions = ["model: exact rational pointwise arithmetic on the union of breakpoints (vp/ref.py PWC/PWL)"]

    def cases(self, rng, tier, config, k, K, n):
        for _ in range(n):
            yield gen.history(rng, rng.choice(["pwc", "pwl"]), tier, wild=True)

    def check(self, case, ctx):
        ps = ctx.ps
        kind = case["kind"]
        ctx.count("kind_" + kind)
        if case.get("int_valued"):
            ctx.count("int_valued_" + kind)
        if len(case["ops"]) >= 5:
            ctx.count("history_len>=5")
        pool = [ctx.call(build, ps, kind, f, _name="constructor") for f in case["funcs"]]
        mods = [model_of(kind, f) for f in case["funcs"]]
        ctx.word((kind, [gen.word_of([f["x"][1:-1] for f in case["funcs"]], case["ts"], case["te"])], case["ops"], case.get("int_valued")),
                 len(case["ops"]) >= 2)
        ctx.sample(case)
        tag = kind + ("-int" if case.get("int_valued") else "")
        for f, o in zip(case["funcs"], pool):
            compare(ctx, kind, o, model_of(kind, f), tag + ":constructor", "freshly constructed function")
        for step, op in enumerate(case["ops"]):
            if op[0] == "add":
                i, j = op[1], op[2]
                a, b = mods[i], mods[j]
                ia = set(a.X[1:-1])
                ib = set(b.X[1:-1])
                if ia - ib:
                    ctx.count("bp_only_in_op1")
                if ib - ia:
                    ctx.count("bp_only_in_op2")
                if ia & ib:
                    ctx.count("bp_shared")
                if a.X == b.X and len(a.X) > 2:
                    ctx.count("identical_breakpoints")
                if i == j:
                    ctx.count("self_add")
                ctx.count("tail:" + tail_kind([float(v) for v in a.X], [float(v) for v in b.X]))
                other = b.copy()
                ctx.mcall(pool[i], "add", pool[j]) if i != j else ctx.mcall(pool[i], "add", pool[i], _name="add(self)")
                a.add(other)
                label = "after step %d %r" % (step, op)
            elif op[0] == "mul":
                i, c = op[1], op[2]
                ctx.count("mul_op")
                ctx.mcall(pool[i], "mul_scalar", c)
                mods[i].mul(c)
                label = "after step %d %r" % (step, op)
            else:
                i = op[1]
                ctx.count("copy_op")
                c = ctx.call(pool[i].copy, _name="copy")
                for (n1, a1), (n2, a2) in zip(arrays(kind, pool[i]), arrays(kind, c)):
                    ctx.expect(not np.shares_memory(np.asarray(a1), np.asarray(a2)), tag + ":copy-aliases-original",
                               "copy().%s shares memory with the original" % n1)
                pool.append(c)
                mods.append(mods[i].copy())
                i = len(pool) - 1
                label = "copy made at step %d" % step
            if not compare(ctx, kind, pool[i], mods[i], tag + ":" + op[0], label):
                return
            integ = ctx.call(pool[i].integral, _name="integral")
            wi = mods[i].integral()
            # (constant pieces: the magnitudes that were summed up, not the - possibly cancelled - result)
            mass = sum(abs(float(v)) * float(mods[i].X[k + 1] - mods[i].X[k])
                       for k, v in enumerate(mods[i].A if kind == "pwc" else [max(abs(p), abs(q)) for p, q in zip(mods[i].Y1, mods[i].Y2)]))
            ctx.expect(abs(float(integ) - float(wi)) <= 1e-9 * max(1.0, mass), tag + ":integral-of-combination",
                       "%s: integral()=%r, combination of the operands' integrals=%r" % (label, float(integ), float(wi)))
        # every object of the pool must still match its model (catches aliasing between pool members)
        for q, (o, mo) in enumerate(zip(pool, mods)):
            if not compare(ctx, kind, o, mo, tag + ":pool-object-changed-behind-its-back", "pool object %d at the end of the history" % q):
                return
        # one float array handed in for several constructor arguments (users lift a constant profile into a linear one with
        # PieceWiseLinFunc(p.x, p.y, p.y)): the object must own independent copies, so a scalar multiply scales it once and
        # leaves the caller's array alone
        ctx.count("shared_constructor_array")
        f0 = case["funcs"][0]
        xa = np.array(f0["x"], dtype=float)
        ya = np.array(f0["y"] if kind == "pwc" else f0["y1"], dtype=float)
        keep = ya.copy()
        if kind == "pwl":
            o = ctx.call(ps.PieceWiseLinFunc, xa, ya, ya, _name="PieceWiseLinFunc(x, y, y)", _readonly=False)
            ctx.mcall(o, "mul_scalar", 0.5)
            ctx.expect(np.array_equal(o.y1, 0.5 * keep) and np.array_equal(o.y2, 0.5 * keep), tag + ":shared-constructor-array",
                       "PieceWiseLinFunc(x, y, y).mul_scalar(0.5): y1=%s y2=%s, expected %s" % (common.short(o.y1.tolist()), common.short(o.y2.tolist()), common.short((0.5 * keep).tolist())))
        else:
            o = ctx.call(ps.PieceWiseConstFunc, xa, ya, _name="PieceWiseConstFunc(x, y)", _readonly=False)
            ctx.mcall(o, "mul_scalar", 0.5)
            ctx.expect(np.array_equal(o.y, 0.5 * keep), tag + ":shared-constructor-array", "PieceWiseConstFunc(x, y).mul_scalar(0.5) gives %s" % common.short(o.y.tolist()))
        ctx.expect(np.array_equal(ya, keep), tag + ":constructor-argument-modified", "the array passed to the constructor was changed by mul_scalar on the object")
        # commutativity / associativity on fresh objects
        fs = case["funcs"]
        ctx.count("commutativity_checked")
        ab = ctx.call(build, ps, kind, fs[0], _name="constructor")
        ba = ctx.call(build, ps, kind, fs[1], _name="constructor")
        ctx.mcall(ab, "add", ctx.call(build, ps, kind, fs[1], _name="constructor"))
        ctx.mcall(ba, "add", ctx.call(build, ps, kind, fs[0], _name="constructor"))
        # "up to rounding": rounding of a sum is relative to the magnitudes that were summed (which may have cancelled)
        opscale = sum(max([0.0] + [abs(float(v)) for key in ("y", "y1", "y2") if key in f for v in f[key]]) for f in fs[:3])
        self.same(ctx, kind, ab, ba, tag + ":a+b!=b+a", opscale)
        if len(fs) >= 3:
            l = ctx.call(build, ps, kind, fs[0], _name="constructor")
            ctx.mcall(l, "add", ctx.call(build, ps, kind, fs[1], _name="constructor"))
            ctx.mcall(l, "add", ctx.call(build, ps, kind, fs[2], _name="constructor"))
            r = ctx.call(build, ps, kind, fs[1], _name="constructor")
            ctx.mcall(r, "add", ctx.call(build, ps, kind, fs[2], _name="constructor"))
            ctx.mcall(r, "add", ctx.call(build, ps, kind, fs[0], _name="constructor"))
            self.same(ctx, kind, l, r, tag + ":(a+b)+c!=(b+c)+a", opscale)
        # average_profile helper
        from pyspike.DiscreteFunc import average_profile
        ctx.count("average_profile_checked")
        objs = [ctx.call(build, ps, kind, f, _name="constructor") for f in fs]
        avg = ctx.call(average_profile, objs, _name="average_profile")
        m = model_of(kind, fs[0])
        for f in fs[1:]:
            m.add(model_of(kind, f))
        m.mul(1.0 / len(fs))
        compare(ctx, kind, avg, m, tag + ":average_profile", "average_profile of the %d initial functions" % len(fs))
        for f, o in zip(fs, objs):
            compare(ctx, kind, o, model_of(kind, f), tag + ":average_profile-modified-input", "input of average_profile afterwards")

    @staticmethod
    def same(ctx, kind, p, q, what, opscale=0.0):
        if not np.array_equal(np.asarray(p.x), np.asarray(q.x)):
            ctx.violation(what, "breakpoints differ: %s vs %s" % (common.short(np.asarray(p.x).tolist()), common.short(np.asarray(q.x).tolist())))
            return
        for n, a in arrays(kind, p)[1:]:
            b = getattr(q, n)
            scale = max(1.0, opscale, float(np.max(np.abs(np.asarray(a, dtype=float)))) if len(a) else 1.0)
            if not np.allclose(np.asarray(a, dtype=float), np.asarray(b, dtype=float), rtol=0, atol=1e-12 * scale):
                ctx.violation(what, "%s differs: %s vs %s" % (n, common.short(np.asarray(a).tolist()), common.short(np.asarray(b).tolist())))
                return


PROP = Prop()
