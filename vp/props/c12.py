"""C12 Compiled backend and pure-Python fallback compute the same results (15 routine pairs).

The .pyx routines are executed through the emulator (vp/pyxemu.py); each is called with the same arguments as
its Python twin inside one process and the results are compared."""
import numpy as np

from .. import ref, gen, env, pyxemu
from . import common
from .common import BaseProp
from .c07 import kw_all2

PAIRS = ["isi_profile", "spike_profile", "coincidence_profile", "coincidence_single_profile",
         "isi_distance(single-pass)", "spike_distance(single-pass)", "coincidence_value(single-pass)", "get_tau",
         "add_piece_wise_const", "add_piece_wise_lin", "add_discrete_function",
         "spike_train_order_profile", "spike_train_order(single-pass)", "spike_directionality_profiles",
         "spike_directionality(single-pass)"]


def nz(a, ts, te):
    return a if len(a) else np.array([ts, te], dtype=float)


def A(v):
    return np.asarray(v, dtype=float)


class Prop(BaseProp):
    id = "C12"
    configs = ("emulated",)
    level = "exploration"
    rule = ("differential execution of the 15 backend routine pairs on identical arguments: pairs from W1/W2/W3(/W4) x "
            "MRTS x RI x max_tau for the profile, single-pass, window and directionality routines (single-pass routines "
            "are compared with averaging/integrating the Python profile), random (i,j) incl. -1 for the coincidence "
            "window, and real ISI/SPIKE/Sync profiles of three trains as operands of the three add routines. The .pyx "
            "side runs through the emulator whose memoryview proxy bounds-checks every index. Shapes exact, marks and "
            "multiplicities exact, reals 1e-12. distinct = interleaving words incl. keyword regime")
    budget = {"quick": 3200, "thorough": 1000000}
    must_see = ["pair:" + p for p in PAIRS] + ["silent_pair_compared_in_full", "empty_train", "one_spike_train_on_t_end", "shared_interior_spike", "max_tau_positive", "RI_true"]
    arm_files = []
    assumptions = ["the .pyx side is a mechanical transliteration executed under CPython: C integer width/overflow, "
                   "memoryview striding, refcounting, GIL release and Cython-compiler behaviour are out of reach",
                   "cython_simulated_annealing.pyx has no Python twin and is not among the 15 pairs"]

    def setup(self, ctx):
        import pyspike.cython.python_backend as pb
        import pyspike.cython.directionality_python_backend as dpb
        emu = env.emu_modules()
        self.pb, self.dpb = pb, dpb
        self.cp, self.cd, self.ca, self.cdir, self.ctau = (emu["cython_profiles"], emu["cython_distances"], emu["cython_add"],
                                                            emu["cython_directionality"], emu["cython_get_tau"])
        self.missing = []
        need = [(self.cp, "isi_profile_cython"), (self.cp, "spike_profile_cython"), (self.cp, "coincidence_profile_cython"),
                (self.cp, "coincidence_single_profile_cython"), (self.cd, "isi_distance_cython"), (self.cd, "spike_distance_cython"),
                (self.cd, "coincidence_value_cython"), (self.ctau, "get_tau"), (self.ca, "add_piece_wise_const_cython"),
                (self.ca, "add_piece_wise_lin_cython"), (self.ca, "add_discrete_function_cython"),
                (self.cdir, "spike_train_order_profile_cython"), (self.cdir, "spike_train_order_cython"),
                (self.cdir, "spike_directionality_profiles_cython"), (self.cdir, "spike_directionality_cython"),
                (pb, "isi_distance_python"), (pb, "spike_distance_python"), (pb, "coincidence_python"), (pb, "coincidence_single_python"),
                (pb, "get_tau"), (pb, "add_piece_wise_const_python"), (pb, "add_piece_wise_lin_python"), (pb, "add_discrete_function_python"),
                (dpb, "spike_train_order_profile_python"), (dpb, "spike_directionality_profile_python")]
        for mod, name in need:
            if not hasattr(mod, name):
                self.missing.append("%s.%s" % (mod.__name__, name))

    def cases(self, rng, tier, config, k, K, n):
        for case in common.pair_stream(rng, tier, n, k, K, kw_fn=kw_all2):
            # (the third train lives on the case's own grid or a coarser one: at ulp-scale sampling a finer grid is not
            # representable and would collapse into duplicate spike times, i.e. an invalid train)
            g3 = max(2, min(16, int(round((case["te"] - case["ts"]) / case["step"])))) if case["dyadic"] else 16
            third = gen.dyadic_train(rng, case["ts"], case["te"], g3, 6) if case["dyadic"] else gen.hostile_train(rng, case["ts"], case["te"], 6)
            case["third"] = third
            case["ij"] = [rng.randint(-1, max(-1, len(case["trains"][0]) - 1)), rng.randint(-1, max(-1, len(case["trains"][1]) - 1))]
            yield case

    def cmp(self, ctx, name, got, want, exact=(), label=""):
        """compare tuples of arrays / scalars"""
        ctx.count("pair:" + name)
        if not isinstance(got, tuple):
            got, want = (got,), (want,)
        if len(got) != len(want):
            ctx.violation("diverge:" + name, "%s: compiled returns %d values, fallback %d" % (label or name, len(got), len(want)))
            return False
        for q, (g, w) in enumerate(zip(got, want)):
            g = A(g)
            w = A(w)
            if g.shape != w.shape:
                ctx.violation("diverge:" + name, "%s: value %d has shape %r (compiled) vs %r (fallback): %s vs %s"
                              % (label or name, q, g.shape, w.shape, common.short(g.tolist()), common.short(w.tolist())))
                return False
            if q in exact:
                ok = np.array_equal(g, w)
            else:
                ok = bool(np.all((g == w) | (np.abs(g - w) <= 1e-12 * np.maximum(1.0, np.abs(w)))))
            if not ok:
                ctx.violation("diverge:" + name + ":" + common.degenerate_class(ctx.case), "%s: value %d differs: compiled %s vs fallback %s"
                              % (label or name, q, common.short(g.tolist()), common.short(w.tolist())))
                return False
        return True

    def check(self, case, ctx):
        if self.missing:
            ctx.violation("routine-missing", "backend routines missing: %s" % ", ".join(self.missing))
            return
        common.pair_classes(ctx, case)
        ts, te = case["ts"], case["te"]
        s1, s2 = A(case["trains"][0]), A(case["trains"][1])
        s3 = A(case["third"])
        n1, n2, n3 = nz(s1, ts, te), nz(s2, ts, te), nz(s3, ts, te)
        kw = case["kw"]
        m = float(kw["MRTS"] or 0)
        RI = bool(kw["RI"])
        mt = float(kw["max_tau"] or 0.0)
        pb, dpb, cp, cd, ca, cdir, ctau = self.pb, self.dpb, self.cp, self.cd, self.ca, self.cdir, self.ctau
        T = te - ts
        ctx.sample({"trains": case["trains"], "edges": [ts, te], "kw": kw})
        C = ctx.call
        # --- profiles
        pi = C(pb.isi_distance_python, n1, n2, ts, te, m)
        ci = C(cp.isi_profile_cython, n1, n2, ts, te, m)
        self.cmp(ctx, "isi_profile", tuple(ci), tuple(pi), exact=(0,))
        psk = C(pb.spike_distance_python, n1, n2, ts, te, m, RI)
        csk = C(cp.spike_profile_cython, n1, n2, ts, te, m, RI)
        self.cmp(ctx, "spike_profile", tuple(csk), tuple(psk), exact=(0,))
        pc = C(pb.coincidence_python, s1, s2, ts, te, mt, m)
        cc = C(cp.coincidence_profile_cython, s1, s2, ts, te, mt, m)
        # (two silent trains included: both twins return the two edge entries with value 1, multiplicity 1)
        if len(s1) + len(s2) == 0:
            ctx.count("silent_pair_compared_in_full")
        self.cmp(ctx, "coincidence_profile", tuple(cc), tuple(pc), exact=(0, 1, 2))
        for (u, v, lab) in ((s1, s2, "1|2"), (s2, s1, "2|1")):
            self.cmp(ctx, "coincidence_single_profile", C(cp.coincidence_single_profile_cython, u, v, ts, te, mt, m),
                     C(pb.coincidence_single_python, u, v, ts, te, mt, m), exact=(0,), label="coincidence_single " + lab)
        # --- single-pass distances vs averaging the Python profile
        x, y = A(pi[0]), A(pi[1])
        want = float(np.sum(np.diff(x) * y) / T)
        self.cmp(ctx, "isi_distance(single-pass)", C(cd.isi_distance_cython, n1, n2, ts, te, m), want)
        x, y1, y2 = A(psk[0]), A(psk[1]), A(psk[2])
        want = float(np.sum(np.diff(x) * 0.5 * (y1 + y2)) / T)
        self.cmp(ctx, "spike_distance(single-pass)", C(cd.spike_distance_cython, n1, n2, ts, te, m, RI), want)
        cv = C(cd.coincidence_value_cython, s1, s2, ts, te, mt, m)
        if len(s1) + len(s2) > 0:
            self.cmp(ctx, "coincidence_value(single-pass)", (float(cv[0]), float(cv[1])),
                     (float(np.sum(A(pc[1])[1:-1])), float(np.sum(A(pc[2])[1:-1]))), exact=(0, 1))
        else:
            self.cmp(ctx, "coincidence_value(single-pass)", (float(cv[0]), float(cv[1])), (0.0, 0.0), exact=(0, 1))
        # --- window
        i, j = case["ij"]
        lim = min(T, 2 * mt) if mt > 0 else T
        self.cmp(ctx, "get_tau", float(C(ctau.get_tau, s1, s2, i, j, lim, m)), float(C(pb.get_tau, s1, s2, i, j, lim, m)))
        # --- directionality
        po = C(dpb.spike_train_order_profile_python, s1, s2, ts, te, mt, m)
        co = C(cdir.spike_train_order_profile_cython, s1, s2, ts, te, mt, m)
        self.cmp(ctx, "spike_train_order_profile", tuple(co), tuple(po), exact=(0, 1, 2))
        so = C(cdir.spike_train_order_cython, s1, s2, ts, te, mt, m)
        self.cmp(ctx, "spike_train_order(single-pass)", (float(so[0]), float(so[1])),
                 (float(np.sum(A(po[1])[1:-1])), float(np.sum(A(po[2])[1:-1]))) if len(s1) + len(s2) else (0.0, 0.0), exact=(0, 1))
        pd = C(dpb.spike_directionality_profile_python, s1, s2, ts, te, mt, m)
        cdp = C(cdir.spike_directionality_profiles_cython, s1, s2, ts, te, mt, m)
        self.cmp(ctx, "spike_directionality_profiles", tuple(cdp), tuple(pd), exact=(0, 1))
        self.cmp(ctx, "spike_directionality(single-pass)", float(C(cdir.spike_directionality_cython, s1, s2, ts, te, mt, m)), float(np.sum(A(pd[0]))))
        # --- add routines fed with real profiles of three trains
        pi2 = C(pb.isi_distance_python, n1, n3, ts, te, m)
        self.cmp(ctx, "add_piece_wise_const", tuple(C(ca.add_piece_wise_const_cython, A(pi[0]), A(pi[1]), A(pi2[0]), A(pi2[1]))),
                 tuple(C(pb.add_piece_wise_const_python, A(pi[0]), A(pi[1]), A(pi2[0]), A(pi2[1]))), exact=(0,))
        ps2 = C(pb.spike_distance_python, n3, n2, ts, te, m, RI)
        self.cmp(ctx, "add_piece_wise_lin", tuple(C(ca.add_piece_wise_lin_cython, A(psk[0]), A(psk[1]), A(psk[2]), A(ps2[0]), A(ps2[1]), A(ps2[2]))),
                 tuple(C(pb.add_piece_wise_lin_python, A(psk[0]), A(psk[1]), A(psk[2]), A(ps2[0]), A(ps2[1]), A(ps2[2]))), exact=(0,))
        pc2 = C(pb.coincidence_python, s3, s2, ts, te, mt, m)
        g = C(ca.add_discrete_function_cython, A(pc[0]), A(pc[1]), A(pc[2]), A(pc2[0]), A(pc2[1]), A(pc2[2]))
        w = C(pb.add_discrete_function_python, A(pc[0]), A(pc[1]), A(pc[2]), A(pc2[0]), A(pc2[1]), A(pc2[2]))
        # interior entries exact; edge entries carry no meaning (and differ between the tail branches by design)
        if self.cmp(ctx, "add_discrete_function", (A(g[0]),), (A(w[0]),), exact=(0,)):
            self.cmp(ctx, "add_discrete_function", (A(g[1])[1:-1], A(g[2])[1:-1]), (A(w[1])[1:-1], A(w[2])[1:-1]), exact=(0, 1))

    def finish(self, ctx):
        if pyxemu.STATS["oob"]:
            ctx.violation("out-of-bounds-index-in-pyx", "%d out-of-bounds index operations in the emulated kernels" % pyxemu.STATS["oob"])


PROP = Prop()
