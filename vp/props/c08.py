"""C08 Time shift and scaling leave results unchanged; time reversal mirrors them."""
import numpy as np

from .. import ref, gen
from . import common
from .common import BaseProp


def kw_c08(rng, case):
    kw = common.kw_sync(rng, case)
    kw["RI"] = rng.random() < 0.4
    if rng.random() < 0.1:
        kw["MRTS"] = "auto"
    return kw


def stream(rng, tier, n, k, K):
    pairs = common.pair_stream(rng, tier, n, k, K, kw_fn=kw_c08)
    lists = common.list_stream(rng, tier, n, k, K, kw_fn=kw_c08, nmin=3, nmax_trains=5)
    for _ in range(n):
        case = next(pairs) if rng.random() < 0.7 else next(lists)
        if case["dyadic"]:
            case["tf"] = rng.choice(["shift", "scale", "reflect", "reflect"])
        else:
            case["tf"] = "scale"         # a power-of-two scale is exact for every float
        case["shift"] = rng.choice([1.0, -1.0, 4.0, 0.5, -16.0, 1024.0, -0.25])
        case["scale"] = 2.0 ** rng.choice([-3, -1, 1, 4, 10])
        yield case


class Prop(BaseProp):
    id = "C08"
    rule = ("pairs and lists (W1/W3/W4 dyadic: shift, scale, reflection; W2 hostile floats: power-of-two scale, which "
            "is exact for every float) x keyword settings incl. MRTS='auto'; each profile/scalar/matrix function is "
            "executed on the original and on the transformed input and the two results must be related by the "
            "transformed time axis (exactly) and equal / mirrored / negated values (1e-9). The reflection relation "
            "pits the start-edge code path against the end-edge code path. distinct = interleaving words x transform")
    budget = {"quick": 1000, "thorough": 180000}
    must_see = ["tf_shift", "tf_scale", "tf_reflect", "reflect:spike_on_t_start_only", "reflect:spike_on_t_end_only",
                "reflect:one_spike_train_on_edge", "reflect:empty_train", "list_case", "mrts_auto"]
    arm_files = [("pyspike/cython/python_backend.py", ["isi_distance_python", "spike_distance_python"]),
                 ("pyspike/isi_lengths.py", None)]
    assumptions = ["dyadic shift / scale / reflection are exact in binary floating point for the generated grids",
                   "edge entries of discrete profiles are not compared (no statement fixes them)"]

    def cases(self, rng, tier, config, k, K, n):
        return stream(rng, tier, n, k, K)

    def check(self, case, ctx):
        ps = ctx.ps
        tr = case["trains"]
        ts, te = case["ts"], case["te"]
        N = len(tr)
        if N == 2:
            common.pair_classes(ctx, case)
        else:
            common.list_classes(ctx, case)
            ctx.count("list_case")
        tf = case["tf"]
        ctx.count("tf_" + tf)
        kwc = dict(case["kw"])
        if isinstance(kwc["MRTS"], str):
            ctx.count("mrts_auto")
        kw2 = dict(kwc)
        if tf == "shift":
            c = case["shift"]
            f = lambda t: t + c
            ts2, te2 = ts + c, te + c
            tr2 = [[f(t) for t in s] for s in tr]
        elif tf == "scale":
            c = case["scale"]
            f = lambda t: t * c
            ts2, te2 = ts * c, te * c
            tr2 = [[f(t) for t in s] for s in tr]
            if not isinstance(kwc["MRTS"], str) and kwc["MRTS"]:
                kw2["MRTS"] = kwc["MRTS"] * c
            if kwc["max_tau"]:
                kw2["max_tau"] = kwc["max_tau"] * c
        else:
            f = lambda t: (ts + te) - t
            ts2, te2 = ts, te
            tr2 = [sorted(f(t) for t in s) for s in tr]
            for s in tr:
                if s and s[0] == ts and s[-1] != te:
                    ctx.count("reflect:spike_on_t_start_only")
                if s and s[-1] == te and s[0] != ts:
                    ctx.count("reflect:spike_on_t_end_only")
                if len(s) == 1 and s[0] in (ts, te):
                    ctx.count("reflect:one_spike_train_on_edge")
                if not s:
                    ctx.count("reflect:empty_train")
        ctx.word(gen.word_of(tr, ts, te) + "|" + tf + "|" + common.mrts_regime(case), sum(len(s) for s in tr) >= 3)
        case2 = {"trains": tr2, "ts": ts2, "te": te2}
        sts = ctx.trains(case)
        sts2 = ctx.trains(case2)
        ctx.sample({"trains": tr, "edges": [ts, te], "kw": kwc, "transform": tf, "transformed_trains": tr2, "transformed_edges": [ts2, te2]})
        mirror = (tf == "reflect")

        def both(fn, kws):
            k1 = {q: kwc[q] for q in kws}
            k2 = {q: kw2[q] for q in kws}
            if N == 2:
                return ctx.call(fn, sts[0], sts[1], **k1), ctx.call(fn, sts2[0], sts2[1], **k2)
            return ctx.call(fn, sts, **k1), ctx.call(fn, sts2, **k2)

        def axis(x):
            xs = [f(float(t)) for t in x]
            return xs[::-1] if mirror else xs

        tag = tf
        # ISI
        p, q = both(ps.isi_profile, ["MRTS"])
        if ctx.expect(q.x.tolist() == axis(p.x), tag + ":isi-axis", "isi profile axis: %s -> %s, expected %s" % (common.short(p.x.tolist()), common.short(q.x.tolist()), common.short(axis(p.x)))):
            want = p.y[::-1] if mirror else p.y
            ctx.expect(np.allclose(q.y, want, rtol=0, atol=1e-9), tag + ":isi-values", "isi profile values %s -> %s" % (common.short(p.y.tolist()), common.short(q.y.tolist())))
        u, v = both(ps.isi_distance, ["MRTS"])
        ctx.close(v, u, tag + ":isi-distance", "isi_distance changes under %s" % tf, rel=1e-9)
        # SPIKE
        p, q = both(ps.spike_profile, ["MRTS", "RI"])
        if ctx.expect(q.x.tolist() == axis(p.x), tag + ":spike-axis", "spike profile axis differs"):
            w1, w2 = (p.y2[::-1], p.y1[::-1]) if mirror else (p.y1, p.y2)
            ctx.expect(np.allclose(q.y1, w1, rtol=0, atol=1e-9) and np.allclose(q.y2, w2, rtol=0, atol=1e-9), tag + ":spike-values",
                       "spike profile values: y1 %s y2 %s -> y1 %s y2 %s" % (common.short(p.y1.tolist()), common.short(p.y2.tolist()), common.short(q.y1.tolist()), common.short(q.y2.tolist())))
        u, v = both(ps.spike_distance, ["MRTS", "RI"])
        ctx.close(v, u, tag + ":spike-distance", "spike_distance changes under %s" % tf, rel=1e-9)
        # Sync
        p, q = both(ps.spike_sync_profile, ["MRTS", "max_tau"])
        if ctx.expect(q.x.tolist() == axis(p.x), tag + ":sync-axis", "sync profile axis differs: %s -> %s" % (common.short(p.x.tolist()), common.short(q.x.tolist()))):
            wy, wm = (p.y[1:-1][::-1], p.mp[1:-1][::-1]) if mirror else (p.y[1:-1], p.mp[1:-1])
            ctx.expect(np.array_equal(q.y[1:-1], wy) and np.array_equal(q.mp[1:-1], wm), tag + ":sync-values",
                       "sync profile: y %s mp %s -> y %s mp %s" % (common.short(p.y.tolist()), common.short(p.mp.tolist()), common.short(q.y.tolist()), common.short(q.mp.tolist())))
        u, v = both(ps.spike_sync, ["MRTS", "max_tau"])
        ctx.close(v, u, tag + ":sync-value", "spike_sync changes under %s" % tf, rel=1e-12)
        # Order
        p, q = both(ps.spike_train_order_profile, ["MRTS", "max_tau"])
        if ctx.expect(q.x.tolist() == axis(p.x), tag + ":order-axis", "order profile axis differs"):
            wy, wm = (-p.y[1:-1][::-1], p.mp[1:-1][::-1]) if mirror else (p.y[1:-1], p.mp[1:-1])
            ctx.expect(np.allclose(q.y[1:-1], wy, rtol=0, atol=1e-12) and np.array_equal(q.mp[1:-1], wm), tag + ":order-values",
                       "order profile: y %s -> %s (mirror+negate=%s)" % (common.short(p.y.tolist()), common.short(q.y.tolist()), mirror))
        if sum(len(s) for s in tr) > 0:
            u, v = both(ps.spike_train_order, ["MRTS", "max_tau"])
            ctx.close(v, -u if mirror else u, tag + ":order-value", "spike_train_order under %s (sign flips under reflection)" % tf, rel=1e-12)
        if N > 2:
            for nm, fn, kws in (("isi", ps.isi_distance_matrix, ["MRTS"]), ("spike", ps.spike_distance_matrix, ["MRTS", "RI"]),
                                ("sync", ps.spike_sync_matrix, ["MRTS", "max_tau"])):
                u, v = both(fn, kws)
                ctx.expect(np.allclose(np.asarray(u), np.asarray(v), rtol=0, atol=1e-9), tag + ":%s-matrix" % nm, "%s matrix changes under %s" % (nm, tf))
            u, v = both(ps.spike_directionality_matrix, ["MRTS", "max_tau"])
            ctx.expect(np.allclose(np.asarray(v), -np.asarray(u) if mirror else np.asarray(u), rtol=0, atol=1e-12), tag + ":directionality-matrix",
                       "directionality matrix under %s" % tf)


PROP = Prop()
