"""C07 Measures respect range, symmetry and identity axioms."""
import numpy as np

from .. import ref, gen
from . import common
from .common import BaseProp


def kw_all2(rng, case):
    kw = common.kw_sync(rng, case)
    kw["RI"] = rng.random() < 0.4
    return kw


def in01(v, eps=1e-12):
    v = np.asarray(v, dtype=float)
    return bool(np.all(np.isfinite(v)) and np.all(v >= -eps) and np.all(v <= 1 + eps))


class Prop(BaseProp):
    id = "C07"
    rule = ("pairs from W1/W2/W3(/W4) x MRTS x RI x max_tau x W6 sub-intervals; every bivariate profile and scalar is "
            "checked for finiteness and range ([0,1]; 0<=entry<=multiplicity; [-1,1]), for invariance under swapping "
            "the arguments (array-wise, 1e-12) and for the identity values on (a, copy(a)). distinct = interleaving "
            "words incl. keyword regime")
    budget = {"quick": 2000, "thorough": 240000}
    must_see = ["empty_train", "one_spike_train_on_t_start", "one_spike_train_on_t_end", "shared_interior_spike",
                "RI_true", "mrts_above_all_isis", "max_tau_positive", "interval_given", "identity_checked", "swap_checked"]
    arm_files = [("pyspike/cython/python_backend.py", ["dist_at_t", "isi_distance_python"])]
    assumptions = ["range bounds are applied with an absolute slack of 1e-12 for rounding"]

    def cases(self, rng, tier, config, k, K, n):
        for case in common.pair_stream(rng, tier, n, k, K, kw_fn=kw_all2):
            if rng.random() < 0.5:
                bps = sorted({t for s in case["trains"] for t in s})
                a, b, kind = gen.pick_interval(rng, case["ts"], case["te"], bps)
                case["interval"] = [a, b]
            else:
                case["interval"] = None
            yield case

    def check(self, case, ctx):
        ps = ctx.ps
        common.pair_classes(ctx, case)
        ts, te = case["ts"], case["te"]
        A, B = ctx.trains(case)
        kwc = case["kw"]
        m = kwc["MRTS"] or 0
        kw_isi = {"MRTS": m}
        kw_spk = {"MRTS": m, "RI": kwc["RI"]}
        kw_syn = {"MRTS": m, "max_tau": kwc["max_tau"]}
        iv = case["interval"]
        ivt = None if iv is None else (iv[0], iv[1])
        if iv is not None:
            ctx.count("interval_given")
        ctx.sample({"trains": case["trains"], "edges": [ts, te], "kw": kwc, "interval": iv})
        dc = common.degenerate_class(case)

        # ---- ranges
        p_isi = ctx.call(ps.isi_profile, A, B, **kw_isi)
        ctx.expect(in01(p_isi.y), "range:isi-profile", "isi profile values outside [0,1] or non-finite: %s" % common.short(p_isi.y.tolist()))
        d = ctx.call(ps.isi_distance, A, B, interval=ivt, **kw_isi)
        ctx.expect(in01(d), "range:isi-distance:" + dc, "isi_distance=%r (interval %r)" % (d, iv))
        p_spk = ctx.call(ps.spike_profile, A, B, **kw_spk)
        ctx.expect(in01(p_spk.y1) and in01(p_spk.y2), "range:spike-profile", "spike profile values outside [0,1] or non-finite: y1=%s y2=%s"
                   % (common.short(p_spk.y1.tolist()), common.short(p_spk.y2.tolist())))
        d = ctx.call(ps.spike_distance, A, B, interval=ivt, **kw_spk)
        ctx.expect(in01(d), "range:spike-distance:" + dc, "spike_distance=%r (interval %r)" % (d, iv))
        p_syn = ctx.call(ps.spike_sync_profile, A, B, **kw_syn)
        ctx.expect(common.finite(p_syn.y) and common.finite(p_syn.mp) and bool(np.all(p_syn.y >= 0) and np.all(p_syn.y <= p_syn.mp)),
                   "range:sync-profile", "sync profile entry outside [0, multiplicity]: y=%s mp=%s" % (common.short(p_syn.y.tolist()), common.short(p_syn.mp.tolist())))
        d = ctx.call(ps.spike_sync, A, B, interval=ivt, **kw_syn)
        ctx.expect(in01(d), "range:spike-sync", "spike_sync=%r (interval %r)" % (d, iv))
        p_ord = ctx.call(ps.spike_train_order_profile, A, B, **kw_syn)
        ctx.expect(common.finite(p_ord.y) and bool(np.all(np.abs(p_ord.y) <= p_ord.mp)), "range:order-profile",
                   "order profile entry outside [-mp, mp]: y=%s mp=%s" % (common.short(p_ord.y.tolist()), common.short(p_ord.mp.tolist())))
        d = ctx.call(ps.spike_train_order, A, B, **kw_syn)
        ctx.expect(common.finite(d) and -1 - 1e-12 <= d <= 1 + 1e-12, "range:spike-train-order:" + dc, "spike_train_order=%r" % d)
        for (X, Y) in ((A, B), (B, A)):
            d = ctx.call(ps.spike_directionality, X, Y, **kw_syn)
            ctx.expect(common.finite(d) and -1 - 1e-12 <= d <= 1 + 1e-12, "range:directionality:" + dc, "normalised spike_directionality=%r" % d)

        # ---- symmetry under swapping the two arguments
        ctx.count("swap_checked")
        q = ctx.call(ps.isi_profile, B, A, **kw_isi)
        ctx.expect(np.array_equal(q.x, p_isi.x) and len(q.y) == len(p_isi.y) and np.allclose(q.y, p_isi.y, rtol=0, atol=1e-12),
                   "symmetry:isi-profile", "isi_profile(a,b) != isi_profile(b,a): %s vs %s" % (common.short(p_isi.y.tolist()), common.short(q.y.tolist())))
        q = ctx.call(ps.spike_profile, B, A, **kw_spk)
        ctx.expect(np.array_equal(q.x, p_spk.x) and len(q.y1) == len(p_spk.y1) and np.allclose(q.y1, p_spk.y1, rtol=0, atol=1e-12)
                   and np.allclose(q.y2, p_spk.y2, rtol=0, atol=1e-12),
                   "symmetry:spike-profile", "spike_profile(a,b) != spike_profile(b,a): y1 %s vs %s" % (common.short(p_spk.y1.tolist()), common.short(q.y1.tolist())))
        q = ctx.call(ps.spike_sync_profile, B, A, **kw_syn)
        ctx.expect(np.array_equal(q.x, p_syn.x) and np.array_equal(q.y[1:-1], p_syn.y[1:-1]) and np.array_equal(q.mp[1:-1], p_syn.mp[1:-1]),
                   "symmetry:sync-profile", "spike_sync_profile(a,b) != (b,a): %s vs %s" % (common.short(p_syn.y.tolist()), common.short(q.y.tolist())))
        for nm, fn, kw in (("isi", ps.isi_distance, kw_isi), ("spike", ps.spike_distance, kw_spk), ("sync", ps.spike_sync, kw_syn)):
            u = ctx.call(fn, A, B, interval=ivt, **kw)
            v = ctx.call(fn, B, A, interval=ivt, **kw)
            ctx.close(u, v, "symmetry:%s-value" % nm, "%s(a,b) vs %s(b,a), interval %r" % (nm, nm, iv), rel=1e-12)

        # ---- identity
        ctx.count("identity_checked")
        for X in (A, B):
            Xc = ctx.call(X.copy, _name="SpikeTrain.copy")
            ctx.expect(Xc is not X and np.array_equal(Xc.spikes, X.spikes) and not np.shares_memory(Xc.spikes, X.spikes)
                       and Xc.t_start == X.t_start and Xc.t_end == X.t_end,
                       "identity:copy", "SpikeTrain.copy is not an independent equal copy (spikes %s on [%r,%r] vs %s on [%r,%r])"
                       % (common.short(common.tl(Xc.spikes)), Xc.t_start, Xc.t_end, common.short(common.tl(X.spikes)), X.t_start, X.t_end))
            d = ctx.call(ps.isi_distance, X, Xc, interval=ivt, **kw_isi)
            ctx.expect(d == 0.0, "identity:isi", "isi_distance(a, copy(a)) = %r" % d)
            d = ctx.call(ps.spike_distance, X, Xc, interval=ivt, **kw_spk)
            ctx.expect(abs(d) <= 1e-15, "identity:spike", "spike_distance(a, copy(a)) = %r" % d)
            d = ctx.call(ps.spike_sync, X, Xc, interval=ivt, **kw_syn)
            ctx.expect(d == 1.0, "identity:sync", "spike_sync(a, copy(a)) = %r" % d)
            d = ctx.call(ps.spike_directionality, X, Xc, normalize=False, **kw_syn)
            ctx.expect(d == 0, "identity:directionality", "un-normalised spike_directionality(a, copy(a)) = %r" % d)
            d = ctx.call(ps.spike_sync, X, X, **kw_syn)
            ctx.expect(d == 1.0, "identity:sync", "spike_sync(a, a) = %r" % d)


PROP = Prop()
