"""C11 Discrete profiles add by event and integrate over open intervals."""
from fractions import Fraction as F

import numpy as np

from .. import ref, gen
from . import common
from .common import BaseProp
from .c06 import tail_kind


def build(ps, f, as_int=False):
    if as_int:
        # whole-number profile built from python ints, as users (and test_directionality) write them
        return ps.DiscreteFunc([int(v) for v in f["x"]], [int(v) for v in f["y"]], [int(v) for v in f["mp"]])
    return ps.DiscreteFunc(np.array(f["x"], dtype=float), np.array(f["y"], dtype=float), np.array(f["mp"], dtype=float))


def plottable_model(x, y, mp, k):
    """unit-contribution window model: every entry j is mp[j] unit contributions of value y[j]/mp[j]; entry i averages
    its own units plus the nearest units on each side until own+side == (k+1)*int(mp[0]) (or the side runs out)"""
    n = len(x)
    Y = [ref.fr(v) for v in y]
    MP = [ref.fr(v) for v in mp]
    if k == 0:
        return [Y[i] / MP[i] for i in range(n)]
    expected = (k + 1) * int(mp[0])
    out = []
    for i in range(n):
        if MP[i] >= expected:
            out.append(Y[i] / MP[i])
            continue
        tot = Y[i]
        units = MP[i]
        for rng_ in (range(i + 1, n), range(i - 1, -1, -1)):
            side = MP[i]
            for j in rng_:
                need = expected - side
                if need <= 0:
                    break
                take = min(need, MP[j])
                tot += Y[j] / MP[j] * take
                side += take
                units += take
                if take == need:
                    break
        out.append(tot / units)
    return out


class Prop(BaseProp):
    id = "C11"
    configs = ("fallback", "emulated")
    rule = ("W8 discrete profiles on a common interval (events on t_start / t_end, shared event times, operands without "
            "events, multiplicities 1..3) x histories of 1..8 add / copy / mul_scalar steps, each followed by queries "
            "integral / avrg over W6 intervals (ends equal to event times, between events, lists of intervals, None) and "
            "get_plottable_data(k) for k=0..3; all compared with an exact event-map model. distinct = (event "
            "interleaving word of the pool, operation sequence)")
    budget = {"quick": 2800, "thorough": 800000}
    must_see = ["tail:op1_tail_longer", "tail:op2_tail_longer", "tail:end_together", "both_operands_without_events",
                "one_operand_without_events", "event_on_t_start", "event_on_t_end", "interval_end_on_event",
                "interval_without_events", "interval_list", "plottable_k>0", "shared_event_time", "copy_op", "integer_dtype_operand", "touching_intervals_on_event"]
    must_contracts = ["inv:DiscreteFunc"]
    arm_files = [("pyspike/DiscreteFunc.py", None),
                 ("pyspike/cython/python_backend.py", ["add_discrete_function_python"])]
    assumptions = ["edge entries are only required to stay finite (they never count)",
                   "plottable model: unit-contribution window over the object's own arrays (edge entries included as "
                   "neighbours, as the plotted arrays include them)"]

    def cases(self, rng, tier, config, k, K, n):
        for _ in range(n):
            case = gen.history(rng, "disc", tier)
            ts, te = case["ts"], case["te"]
            ev = sorted({t for f in case["funcs"] for t in f["x"][1:-1]})
            qs = []
            for _ in range(rng.randint(2, 5)):
                r = rng.random()
                if r < 0.5:
                    a, b, kd = gen.pick_interval(rng, ts, te, ev)
                    qs.append(["iv", [a, b]])
                elif r < 0.6:
                    qs.append(["iv", None])
                elif r < 0.8:
                    ivs = []
                    for _ in range(rng.choice([1, 2, 2, 3])):
                        a, b, kd = gen.pick_interval(rng, ts, te, ev)
                        if ivs and rng.random() < 0.4 and ivs[-1][1] < te:
                            # touching intervals: the next one starts where the previous one ends (often on an event)
                            a = ivs[-1][1]
                            later = [t for t in ev + [te] if t > a]
                            b = rng.choice(later) if later else te
                        ivs.append([a, b])
                    qs.append(["ivs", ivs])
                else:
                    qs.append(["plot", rng.choice([0, 1, 1, 2, 3, 5, 8, 13])])
            case["queries"] = qs
            yield case

    def check(self, case, ctx):
        ps = ctx.ps
        ts, te = case["ts"], case["te"]
        fs = case["funcs"]
        def whole(f):
            return all(float(v).is_integer() for k_ in ("x", "y", "mp") for v in f[k_])
        ints = [whole(f) and (q % 2 == 0) for q, f in enumerate(fs)]
        if any(ints):
            ctx.count("integer_dtype_operand")
        pool = [ctx.call(build, ps, f, ints[q], _name="constructor") for q, f in enumerate(fs)]
        mods = [ref.DISC(f["x"], f["y"], f["mp"]) for f in fs]
        ctx.word(([gen.word_of([f["x"][1:-1] for f in fs], ts, te)], case["ops"]), True)
        ctx.sample(case)
        for f in fs:
            if ts in f["x"][1:-1]:
                ctx.count("event_on_t_start")
            if te in f["x"][1:-1]:
                ctx.count("event_on_t_end")
        last = 0
        for step, op in enumerate(case["ops"]):
            if op[0] == "add":
                i, j = op[1], op[2]
                ea, eb = set(mods[i].ev), set(mods[j].ev)
                if not ea and not eb:
                    ctx.count("both_operands_without_events")
                elif not ea or not eb:
                    ctx.count("one_operand_without_events")
                if ea & eb:
                    ctx.count("shared_event_time")
                ctx.count("tail:" + tail_kind([ts] + sorted(t for t in ea if True) + [te], [ts] + sorted(eb) + [te])
                          if ea and eb else "tail:n/a")
                other = mods[j].copy()
                if i == j:
                    ctx.mcall(pool[i], "add", pool[i], _name="DiscreteFunc.add(self)")
                else:
                    ctx.mcall(pool[i], "add", pool[j])
                mods[i].add(other)
            elif op[0] == "mul":
                i = op[1]
                ctx.mcall(pool[i], "mul_scalar", op[2])
                for t in mods[i].ev:
                    mods[i].ev[t][0] *= ref.fr(op[2])
            else:
                i = op[1]
                ctx.count("copy_op")
                c = ctx.call(pool[i].copy, _name="DiscreteFunc.copy")
                for n_ in ("x", "y", "mp"):
                    ctx.expect(not np.shares_memory(getattr(c, n_), getattr(pool[i], n_)), "copy-aliases-original", "copy().%s shares memory" % n_)
                pool.append(c)
                mods.append(mods[i].copy())
                i = len(pool) - 1
            last = i
            if not self.compare(ctx, pool[i], mods[i], ts, te, "disc:" + op[0], "after step %d %r" % (step, op)):
                return
        for q, (o, mo) in enumerate(zip(pool, mods)):
            if not self.compare(ctx, o, mo, ts, te, "disc:pool-object-changed-behind-its-back", "pool object %d at the end" % q):
                return
        obj, mod = pool[last], mods[last]
        evt = mod.times()
        for qy in case["queries"]:
            if qy[0] == "iv":
                iv = qy[1]
                if iv is None:
                    got = ctx.call(obj.integral, None, _name="DiscreteFunc.integral")
                    sy, sm = mod.sums()
                else:
                    a, b = iv
                    if a in evt or b in evt:
                        ctx.count("interval_end_on_event")
                    got = ctx.call(obj.integral, (a, b), _name="DiscreteFunc.integral")
                    sy, sm = mod.sums(a, b)
                if sm == 0:
                    ctx.count("interval_without_events")
                ctx.expect(float(got[0]) == float(sy) and float(got[1]) == float(sm), "disc:integral",
                           "integral(%r)=%r, events strictly inside give (%r, %r)" % (iv, (float(got[0]), float(got[1])), float(sy), float(sm)))
                av = ctx.call(obj.avrg, None if iv is None else tuple(iv), _name="DiscreteFunc.avrg")
                want = float(sy / sm) if sm else 1.0
                ctx.close(av, want, "disc:avrg", "avrg(%r)" % (iv,), rel=1e-12)
            elif qy[0] == "ivs":
                ctx.count("interval_list")
                ivs = [tuple(v) for v in qy[1]]
                if any(ivs[q][1] == ivs[q + 1][0] and ivs[q][1] in evt for q in range(len(ivs) - 1)):
                    ctx.count("touching_intervals_on_event")
                got = ctx.call(obj.integral, ivs, _name="DiscreteFunc.integral")
                sy = sum(mod.sums(a, b)[0] for a, b in ivs)
                sm = sum(mod.sums(a, b)[1] for a, b in ivs)
                ctx.expect(float(got[0]) == float(sy) and float(got[1]) == float(sm), "disc:integral-list",
                           "integral(%r)=%r, summed over the intervals (%r, %r)" % (ivs, (float(got[0]), float(got[1])), float(sy), float(sm)))
                av = ctx.call(obj.avrg, ivs, _name="DiscreteFunc.avrg")
                ctx.close(av, float(sy / sm) if sm else 1.0, "disc:avrg-list", "avrg(%r)" % (ivs,), rel=1e-12)
            else:
                k = qy[1]
                if k > 0:
                    ctx.count("plottable_k>0")
                xp, yp = ctx.call(obj.get_plottable_data, k, _name="DiscreteFunc.get_plottable_data")
                want = plottable_model(obj.x.tolist(), obj.y.tolist(), obj.mp.tolist(), k)
                ctx.expect(np.array_equal(np.asarray(xp), obj.x), "disc:plottable-x", "plottable x differs from the event times")
                ctx.expect(len(yp) == len(want) and all(abs(float(a) - float(b)) <= 1e-12 * max(1.0, abs(float(b))) for a, b in zip(yp, want)),
                           "disc:plottable-k%d" % min(k, 1), "get_plottable_data(%d)=%s, unit-window model %s" % (k, common.short(list(map(float, yp))), common.short([float(v) for v in want])))

    @staticmethod
    def compare(ctx, obj, mod, ts, te, what, label):
        times = mod.times()
        want_x = [ts] + times + [te]
        got = np.asarray(obj.x, dtype=float).tolist()
        if got != want_x:
            ctx.violation(what + ":event-times", "%s: x=%s, expected one entry per distinct event time %s" % (label, common.short(got), common.short(want_x)))
            return False
        y = np.asarray(obj.y, dtype=float).tolist()
        mp = np.asarray(obj.mp, dtype=float).tolist()
        wy = [float(mod.ev[t][0]) for t in times]
        wm = [float(mod.ev[t][1]) for t in times]
        if y[1:-1] != wy or mp[1:-1] != wm:
            ctx.violation(what + ":values", "%s: y=%s mp=%s, expected interior y=%s mp=%s" % (label, common.short(y), common.short(mp), common.short(wy), common.short(wm)))
            return False
        if not (common.finite(y) and common.finite(mp)):
            ctx.violation(what + ":edge-nonfinite", "%s: edge entries not finite: y=%s mp=%s" % (label, common.short(y), common.short(mp)))
            return False
        return True


PROP = Prop()
