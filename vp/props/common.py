"""Shared pieces of the per-property checks: case generators for pairs/lists with keyword settings,
class counters (must-see gates), comparison helpers."""
import itertools
import math

import numpy as np

from .. import gen, ref
from ..harness import tol_close, short


def tl(x):
    """spike times as a plain list, whatever container the code under test left in `.spikes`"""
    return np.asarray(x).tolist()


def env_repo():
    from .. import env
    return env.REPO


class BaseProp(object):
    level = "exploration"
    configs = ("fallback", "emulated")
    workers = {"quick": 4, "thorough": 8}
    must_see = []
    must_contracts = []
    assumptions = []
    class_invariants = True
    kernel_contracts = True
    strict_invariants = True


# ------------------------------------------------------------------------------------------ pair workloads
def pair_stream(rng, tier, n, k=0, K=1, with_w4=True, kw_fn=None, nmax=None):
    """yields pair cases: W1 dyadic (55%), W2 hostile floats (25%), W3 degenerate product (enumerated, cycled),
    thorough: W4 interleaving sweep slices"""
    degen = [(lo, hi, combo, tr) for (lo, hi) in ((0.0, 1.0), (-4.0, 4.0), (16.0, 16.5))
             for combo, tr in gen.degenerate_product(2, lo, hi)]
    di = k + K * rng.randrange(1000)
    w4 = w4_stream(rng, k, K) if (tier == "thorough" and with_w4) else None
    for idx in range(n):
        r = rng.random()
        if idx % 400 == 7 or (tier == "thorough" and r > 0.9995):
            case = gen.long_pair(rng)
            case["src"] = "W13"
        elif w4 is not None and r < 0.25:
            case = next(w4)
            case["src"] = "W4"
        elif tier == "thorough" and r < 0.27 and gen.real_case(rng, env_repo(), 2):
            case = gen.real_case(rng, env_repo(), 2)
            case["src"] = "W12"
        elif r < 0.55:
            case = gen.dyadic_pair(rng, tier, nmax)
            case["src"] = "W1"
        elif r < 0.80:
            case = gen.hostile_pair(rng, tier)
            case["src"] = "W2"
        else:
            lo, hi, combo, trains = degen[di % len(degen)]
            di += K
            trains = [list(t) for t in trains]
            case = {"ts": lo, "te": hi, "step": (hi - lo) / 8, "dyadic": True, "trains": trains,
                    "src": "W3", "combo": list(combo)}
        if kw_fn:
            case["kw"] = kw_fn(rng, case)
        yield case


def w4_stream(rng, k, K):
    """interleaving-pattern sweep: pairs of subsets (size<=4) of a 9-point grid incl. both edges; worker k takes
    a strided slice starting at a seed-dependent offset, cycling forever"""
    pts = list(range(9))
    subsets = [c for r in range(0, 5) for c in itertools.combinations(pts, r)]
    total = len(subsets) ** 2
    pos = (rng.randrange(total) // K) * K + k
    while True:
        a = subsets[(pos // len(subsets)) % len(subsets)]
        b = subsets[pos % len(subsets)]
        pos += K * 7919
        ts, te = rng.choice([(0.0, 8.0), (16.0, 17.0), (-4.0, 4.0)])
        T = te - ts
        yield {"ts": ts, "te": te, "step": T / 8, "dyadic": True,
               "trains": [[ts + i * T / 8 for i in a], [ts + i * T / 8 for i in b]]}


def as_user_number(rng, v):
    """whole-valued keyword arguments are sometimes passed as python ints (users write max_tau=2, MRTS=10) or as numpy
    scalars of another type (np.int64 / np.float64 from an array, a 0-d array) - always with exactly the same numeric value"""
    if not isinstance(v, float):
        return v
    r = rng.random()
    if v.is_integer() and abs(v) < 1e9:
        if r < 0.35:
            return int(v)
        if r < 0.5:
            return np.int64(v)
        if r < 0.55:
            return np.int32(v)
    # (np.float32 values are NOT generated: under numpy 2 a python float combined with a float32 scalar is computed in
    # binary32, so an implementation that works with python floats legitimately returns float32-accurate results for a
    # float32 argument - flagging that would demand more than any statement says; see DESIGN section A)
    if r > 0.85:
        return np.float64(v)
    if r > 0.8:
        return np.array(v)       # a 0-d array (np.asarray(x), np.squeeze(...), arr.max(keepdims=...)): still one number
    return v


def kw_isi(rng, case):
    T = case["te"] - case["ts"]
    if case["dyadic"]:
        m = rng.choice(gen.mrts_choices(T, case["step"]))
    else:
        m = rng.choice([0, 0, T * 10 ** rng.uniform(-6, 1), gen.min_isi(case["trains"], case["ts"], case["te"]) / 2])
    return {"MRTS": as_user_number(rng, m)}


def kw_spike(rng, case):
    kw = kw_isi(rng, case)
    kw["RI"] = rng.random() < 0.4
    return kw


def kw_sync(rng, case):
    T = case["te"] - case["ts"]
    kw = kw_isi(rng, case)
    if "m" in case:
        # window-scale workload: keyword values of the order of the ISIs
        m_ = case["m"]
        kw["max_tau"] = rng.choice([None, m_ / 2, m_, m_, 1.5 * m_, 3 * m_])
        kw["MRTS"] = rng.choice([0, 0, m_, 3 * m_, 6 * m_])
    elif case["dyadic"]:
        kw["max_tau"] = as_user_number(rng, rng.choice(gen.maxtau_choices(T, case["step"])))
    else:
        kw["max_tau"] = rng.choice([None, None, 0, T * 10 ** rng.uniform(-5, 0.5)])
        if T >= 3 and rng.random() < 0.3:
            # users pass whole numbers as python ints (max_tau=2) also when the spike times are arbitrary floats
            kw["max_tau"] = int(max(1, round(T * 10 ** rng.uniform(-2.5, -0.35))))
            if rng.random() < 0.3:
                kw["MRTS"] = int(max(1, round(T * 10 ** rng.uniform(-2, 0))))
    return kw


def pass_kw(kw, names=("MRTS", "RI", "max_tau")):
    """keyword dict to pass on: None-valued max_tau is passed explicitly half the time elsewhere; here: drop Nones
    for MRTS/RI (means 'omitted') but keep max_tau=None explicit"""
    out = {}
    for n in names:
        if n in kw:
            if kw[n] is None and n != "max_tau":
                continue
            out[n] = kw[n]
    return out


def pair_classes(ctx, case):
    """count the input classes named in the must-see lists"""
    ts, te = case["ts"], case["te"]
    tr = case["trains"]
    for s in tr[:2]:
        if len(s) == 0:
            ctx.count("empty_train")
        if len(s) == 1:
            ctx.count("one_spike_train")
            if s[0] == ts:
                ctx.count("one_spike_train_on_t_start")
            if s[0] == te:
                ctx.count("one_spike_train_on_t_end")
        if len(s) and s[0] == ts:
            ctx.count("spike_on_t_start")
        if len(s) and s[-1] == te:
            ctx.count("spike_on_t_end")
    if len(tr) >= 2:
        sh = set(tr[0]) & set(tr[1])
        if any(ts < t < te for t in sh):
            ctx.count("shared_interior_spike")
        if ts in sh:
            ctx.count("shared_spike_on_t_start")
        if te in sh:
            ctx.count("shared_spike_on_t_end")
        if tr[0] == tr[1] and len(tr[0]):
            ctx.count("identical_trains")
    ctx.count("src_" + case.get("src", "?"))
    if not case.get("dyadic"):
        ctx.count("non_dyadic_case")
    kw = case.get("kw", {})
    m = kw.get("MRTS", 0) or 0
    if not isinstance(m, str):
        lo = gen.min_isi(tr, ts, te)
        if m == 0:
            ctx.count("mrts_zero")
        elif m < lo:
            ctx.count("mrts_below_all_isis")
        elif m >= te - ts:
            ctx.count("mrts_above_all_isis")
        else:
            ctx.count("mrts_between_isis")
    if kw.get("RI"):
        ctx.count("RI_true")
    if "max_tau" in kw:
        mt = kw["max_tau"]
        ctx.count("max_tau_none" if mt is None else "max_tau_zero" if mt == 0 else "max_tau_positive")
        if isinstance(mt, (int, np.integer)) and not isinstance(mt, bool) and mt > 0:
            ctx.count("max_tau_python_int")
        if isinstance(mt, np.generic):
            ctx.count("max_tau_numpy_scalar")
    if isinstance(kw.get("MRTS"), (int, np.integer)) and kw["MRTS"] > 0:
        ctx.count("mrts_python_int")
    if isinstance(kw.get("MRTS"), np.generic):
        ctx.count("mrts_numpy_scalar")
    w = gen.word_of(tr, ts, te) + "|" + repr(sorted((k, gen.size_class(0) if v is None else v) for k, v in kw.items()
                                                    if k in ("RI",)))
    ctx.word(w + "|" + mrts_regime(case), gen.nontrivial_pair(tr))


def mrts_regime(case):
    kw = case.get("kw", {})
    m = kw.get("MRTS", 0) or 0
    if isinstance(m, str):
        return "auto"
    lo = gen.min_isi(case["trains"], case["ts"], case["te"])
    reg = "0" if m == 0 else "lo" if m < lo else "hi" if m >= case["te"] - case["ts"] else "mid"
    mt = kw.get("max_tau", "x")
    return reg + ("" if mt == "x" else "/N" if mt is None else "/0" if mt == 0 else "/+")


# ------------------------------------------------------------------------------------------ comparisons
def same_axis(ctx, got, want, what, label):
    got = [float(v) for v in np.asarray(got).tolist()]
    want = [float(v) for v in want]
    if got != want:
        ctx.violation(what, "%s: time axis differs: got %s expected %s" % (label, short(got), short(want)))
        return False
    return True


def arr_close(ctx, got, want, what, label, rel=1e-9):
    got = np.asarray(got, dtype=float).tolist()
    if len(got) != len(want):
        ctx.violation(what, "%s: length %d != expected %d" % (label, len(got), len(want)))
        return False
    for k, (g, w) in enumerate(zip(got, want)):
        if not tol_close(g, float(w), rel):
            ctx.violation(what, "%s: entry %d is %r, expected %r (all got: %s)" % (label, k, g, float(w), short(got)))
            return False
    return True


def arr_exact(ctx, got, want, what, label):
    got = np.asarray(got, dtype=float).tolist()
    want = [float(v) for v in want]
    if got != want:
        ctx.violation(what, "%s: got %s expected %s" % (label, short(got), short(want)))
        return False
    return True


def is_pwc(ps, o):
    return isinstance(o, ps.PieceWiseConstFunc)


def finite(v):
    try:
        return bool(np.all(np.isfinite(np.asarray(v, dtype=float))))
    except Exception:
        return False


def degenerate_class(case):
    """mechanism-level description of degenerate pair shapes (used for known-finding keys)"""
    ts, te = case["ts"], case["te"]
    out = []
    for s in case["trains"][:2]:
        if len(s) == 0:
            out.append("empty")
        elif len(s) == 1 and s[0] == te:
            out.append("single-on-t_end")
        elif len(s) == 1 and s[0] == ts:
            out.append("single-on-t_start")
        elif len(s) == 1:
            out.append("single")
        else:
            out.append("multi")
    return "+".join(out)


# ------------------------------------------------------------------------------------------ list workloads
def list_stream(rng, tier, n, k=0, K=1, kw_fn=None, nmin=2, nmax_trains=None):
    """W5: lists of trains: dyadic (65%), hostile floats (20%), degenerate triple product (15%)"""
    if nmax_trains is None:
        nmax_trains = 8 if tier == "quick" else 12
    degen = [(lo, hi, combo, tr) for (lo, hi) in ((0.0, 1.0), (-4.0, 4.0))
             for combo, tr in gen.degenerate_product(3, lo, hi)]
    di = k + K * rng.randrange(5000)
    for idx in range(n):
        r = rng.random()
        if r > 0.92 and nmin <= 3:
            case = gen.window_scale_list(rng, rng.randint(max(2, nmin), max(3, nmin)))
            case["src"] = "W14"
        elif tier == "thorough" and r < 0.03 and gen.real_case(rng, env_repo(), max(nmin, 3)):
            case = gen.real_case(rng, env_repo(), rng.randint(max(nmin, 3), max(nmin, 3) + 2), max_spikes=25)
            case["src"] = "W12"
        elif r < 0.65:
            case = gen.dyadic_list(rng, tier, nmin, nmax_trains)
            case["src"] = "W5d"
        elif r < 0.85:
            case = gen.hostile_list(rng, tier, nmin, min(nmax_trains, 6))
            case["src"] = "W5h"
        else:
            lo, hi, combo, trains = degen[di % len(degen)]
            di += K
            trains = [list(t) for t in trains]
            if nmin > 3:
                trains = trains + [list(trains[0])] * (nmin - 3)
            case = {"ts": lo, "te": hi, "step": (hi - lo) / 8, "dyadic": True, "trains": trains,
                    "src": "W3x3", "combo": list(combo)}
        if kw_fn:
            case["kw"] = kw_fn(rng, case)
        yield case


def list_classes(ctx, case):
    tr = case["trains"]
    ts, te = case["ts"], case["te"]
    N = len(tr)
    ctx.count("N=%s" % (N if N < 5 else "5+"))
    if N >= 3:
        ctx.count("N>=3")
    if N >= 4:
        ctx.count("N>=4")
    if N >= 5:
        ctx.count("N>=5")
    if any(len(s) == 0 for s in tr):
        ctx.count("empty_train_in_list")
    if any(len(s) == 1 for s in tr):
        ctx.count("one_spike_train_in_list")
    if any(tr[i] == tr[j] and len(tr[i]) for i in range(N) for j in range(i)):
        ctx.count("repeated_train")
    allsp = [t for s in tr for t in s]
    if len(set(allsp)) < len(allsp):
        ctx.count("simultaneous_spikes")
    if any(s and s[0] == ts for s in tr):
        ctx.count("spike_on_t_start")
    if any(s and s[-1] == te for s in tr):
        ctx.count("spike_on_t_end")
    ctx.count("src_" + case.get("src", "?"))
    if not case.get("dyadic"):
        ctx.count("non_dyadic_case")
    kw = case.get("kw", {})
    if "max_tau" in kw:
        mt = kw["max_tau"]
        ctx.count("max_tau_none" if mt is None else "max_tau_zero" if mt == 0 else "max_tau_positive")
    if kw.get("RI"):
        ctx.count("RI_true")
    m = kw.get("MRTS", 0)
    ctx.count("mrts_auto" if isinstance(m, str) else "mrts_zero" if not m else "mrts_positive")
    ctx.word(gen.word_of(tr, ts, te) + "|" + mrts_regime(case) + "|" + repr(case.get("idx")),
             N >= 2 and sum(len(s) for s in tr) >= 3)


def pick_indices(rng, N, force_nontrivial=True):
    """random subset (size>=2) in random order; never only a prefix of the identity unless N == 2"""
    for _ in range(20):
        m = rng.randint(2, N)
        idx = rng.sample(range(N), m)
        if not force_nontrivial or N == 2 or idx != list(range(m)):
            return idx
    return list(reversed(range(N)))


def vary_indices(ctx, idx):
    """the same selection as list / tuple / ndarray (users pass all three)"""
    v = ctx.evals % 4
    if v == 3:
        # users write indices=range(2, 5): possible when the selection is an arithmetic progression
        if len(idx) >= 2 and idx[1] != idx[0]:
            r = range(idx[0], idx[-1] + (1 if idx[1] > idx[0] else -1), idx[1] - idx[0])
            if list(r) == list(idx):
                ctx.count("repr_indices_range")
                return r
        return list(idx)
    if v == 1:
        ctx.count("repr_indices_tuple")
        return tuple(idx)
    if v == 2:
        ctx.count("repr_indices_ndarray")
        return np.array(idx)
    return list(idx)


def idx_classes(ctx, idx, N):
    if idx != sorted(idx):
        ctx.count("indices_not_sorted")
    if 0 not in idx:
        ctx.count("indices_skip_0")
    if len(idx) == 2:
        ctx.count("indices_size_2")
    if len(idx) == N:
        ctx.count("indices_size_N")
    if idx == list(reversed(sorted(idx))) and len(idx) > 1:
        ctx.count("indices_reversed")
    if idx != list(range(len(idx))):
        ctx.count("indices_non_prefix")


# ------------------------------------------------------------------------------------------ public entry points
# name, attribute, form ('bi' = two trains as positional args, 'list' = one list argument, 'any' = both forms),
# keyword groups it accepts
ENTRY_POINTS = [
    ("isi_profile", "any", ("MRTS",), False),
    ("isi_profile_multi", "list", ("MRTS",), False),
    ("isi_distance", "any", ("MRTS",), True),
    ("isi_distance_multi", "list", ("MRTS",), True),
    ("isi_distance_matrix", "list", ("MRTS",), True),
    ("spike_profile", "any", ("MRTS", "RI"), False),
    ("spike_profile_multi", "list", ("MRTS", "RI"), False),
    ("spike_distance", "any", ("MRTS", "RI"), True),
    ("spike_distance_multi", "list", ("MRTS", "RI"), True),
    ("spike_distance_matrix", "list", ("MRTS", "RI"), True),
    ("spike_sync_profile", "any", ("MRTS", "max_tau"), False),
    ("spike_sync_profile_multi", "list", ("MRTS", "max_tau"), False),
    ("spike_sync", "any", ("MRTS", "max_tau"), True),
    ("spike_sync_multi", "list", ("MRTS", "max_tau"), True),
    ("spike_sync_matrix", "list", ("MRTS", "max_tau"), True),
    ("spike_train_order_profile", "any", ("MRTS", "max_tau"), False),
    ("spike_train_order_profile_bi", "bi", ("MRTS", "max_tau"), False),
    ("spike_train_order_profile_multi", "list", ("MRTS", "max_tau"), False),
    ("spike_train_order", "any", ("MRTS", "max_tau"), False),
    ("spike_train_order_bi", "bi", ("MRTS", "max_tau"), False),
    ("spike_train_order_multi", "list", ("MRTS", "max_tau"), False),
    ("spike_directionality", "bi", ("MRTS", "max_tau"), False),
    ("spike_directionality_values", "any", ("MRTS", "max_tau"), False),
    ("spike_directionality_matrix", "list", ("MRTS", "max_tau"), False),
]


def result_equal(ps, r1, r2, tol=1e-12):
    """structural comparison of two results of the same public function; returns None if equal else a description"""
    if isinstance(r1, BaseException) or isinstance(r2, BaseException):
        if type(r1) is type(r2):
            return None
        return "exception mismatch: %r vs %r" % (r1, r2)
    if isinstance(r1, ps.SpikeTrain):
        if not isinstance(r2, ps.SpikeTrain):
            return "type mismatch"
        if r1.t_start != r2.t_start or r1.t_end != r2.t_end or not np.array_equal(r1.spikes, r2.spikes):
            return "spike trains differ: %s [%r,%r] vs %s [%r,%r]" % (short(tl(r1.spikes)), r1.t_start, r1.t_end,
                                                                      short(tl(r2.spikes)), r2.t_start, r2.t_end)
        return None
    for cls, names, exact in ((ps.PieceWiseConstFunc, ("x", "y"), ("x",)), (ps.PieceWiseLinFunc, ("x", "y1", "y2"), ("x",)),
                              (ps.DiscreteFunc, ("x", "y", "mp"), ("x", "mp"))):
        if isinstance(r1, cls):
            if not isinstance(r2, cls):
                return "type mismatch %s vs %s" % (type(r1).__name__, type(r2).__name__)
            for n in names:
                a, b = np.asarray(getattr(r1, n), dtype=float), np.asarray(getattr(r2, n), dtype=float)
                if cls is ps.DiscreteFunc and n != "x":
                    a, b = a[1:-1], b[1:-1]
                if a.shape != b.shape:
                    return "%s: shapes %r vs %r (%s vs %s)" % (n, a.shape, b.shape, short(a.tolist()), short(b.tolist()))
                if n in exact:
                    if not np.array_equal(a, b):
                        return "%s differs: %s vs %s" % (n, short(a.tolist()), short(b.tolist()))
                elif not np.allclose(a, b, rtol=0, atol=tol * max(1.0, float(np.max(np.abs(b))) if b.size else 1.0)):
                    return "%s differs: %s vs %s" % (n, short(a.tolist()), short(b.tolist()))
            return None
    if isinstance(r1, (list, tuple)):
        if not isinstance(r2, (list, tuple)) or len(r1) != len(r2):
            return "sequence length/type mismatch: %s vs %s" % (short(r1), short(r2))
        for k, (a, b) in enumerate(zip(r1, r2)):
            d = result_equal(ps, a, b, tol)
            if d:
                return "[%d] %s" % (k, d)
        return None
    a, b = np.asarray(r1, dtype=float), np.asarray(r2, dtype=float)
    if a.shape != b.shape:
        return "shapes %r vs %r" % (a.shape, b.shape)
    both_nan = np.isnan(a) & np.isnan(b)
    ok = both_nan | (a == b) | (np.abs(a - b) <= tol * np.maximum(1.0, np.abs(b)))
    if not bool(np.all(ok)):
        return "values differ: %s vs %s" % (short(a.tolist()), short(b.tolist()))
    return None
