"""C14 All call forms and index selections of a measure agree."""
import numpy as np

from .. import ref, gen
from . import common
from .common import BaseProp


def kw_c14(rng, case):
    kw = common.kw_sync(rng, case)
    kw["RI"] = rng.random() < 0.4
    if rng.random() < 0.15:
        kw["MRTS"] = "auto"
    return kw


PROFILES = [("isi_profile", ("MRTS",)), ("spike_profile", ("MRTS", "RI")), ("spike_sync_profile", ("MRTS", "max_tau")),
            ("spike_train_order_profile", ("MRTS", "max_tau"))]
SCALARS = [("isi_distance", ("MRTS",), True), ("spike_distance", ("MRTS", "RI"), True), ("spike_sync", ("MRTS", "max_tau"), True),
           ("spike_train_order", ("MRTS", "max_tau"), False)]
MATRICES = [("isi_distance_matrix", ("MRTS",), True), ("spike_distance_matrix", ("MRTS", "RI"), True),
            ("spike_sync_matrix", ("MRTS", "max_tau"), True), ("spike_directionality_matrix", ("MRTS", "max_tau"), False)]
SCALAR_OF_MATRIX = {"isi_distance_matrix": "isi_distance", "spike_distance_matrix": "spike_distance", "spike_sync_matrix": "spike_sync"}
MULTI = {"isi_profile": "isi_profile_multi", "spike_profile": "spike_profile_multi", "spike_sync_profile": "spike_sync_profile_multi",
         "spike_train_order_profile": "spike_train_order_profile_multi", "isi_distance": "isi_distance_multi",
         "spike_distance": "spike_distance_multi", "spike_sync": "spike_sync_multi", "spike_train_order": "spike_train_order_multi"}


class Prop(BaseProp):
    id = "C14"
    rule = ("lists of 3..7 trains (W5) x keyword settings (interval, max_tau, numeric MRTS, RI; 'auto' only between forms "
            "that see the same set of trains) x random index subsets in random order (never only identity prefixes): "
            "f(a,b) vs f([a,b]) vs f(L, indices=[i,j]); f(*sub) vs f(sub) vs f(L, indices=common.vary_indices(ctx, idx)) vs f_multi(L, indices=common.vary_indices(ctx, idx)) "
            "for the four profiles, four scalars, directionality values and four matrices - all identities between real "
            "executions. distinct = (interleaving word, keyword regime, index selection)")
    budget = {"quick": 500, "thorough": 50000}
    must_see = ["indices_not_sorted", "indices_skip_0", "indices_size_2", "indices_size_N", "indices_non_prefix",
                "interval_given", "interval_list_given", "interval_list_3+", "max_tau_positive", "mrts_positive", "mrts_auto", "RI_true", "three_arg_form"] + \
               ["m:" + n for n, _ in PROFILES] + ["m:" + n for n, _, _ in SCALARS] + ["m:" + n for n, _, _ in MATRICES] + ["m:spike_directionality_values"]
    arm_files = [("pyspike/generic.py", None), ("pyspike/spike_directionality.py", None), ("pyspike/spike_sync.py", None)]
    assumptions = ["MRTS='auto' pools the trains a call sees (pair vs whole list), so it is only compared between forms that "
                   "see the same set (C15 describes the pooling)"]

    def cases(self, rng, tier, config, k, K, n):
        for case in common.list_stream(rng, tier, n, k, K, kw_fn=kw_c14, nmin=3, nmax_trains=6 if tier == "quick" else 7):
            N = len(case["trains"])
            case["idx"] = common.pick_indices(rng, N)
            if rng.random() < 0.5:
                bps = sorted({t for s in case["trains"] for t in s})
                a, b, kd = gen.pick_interval(rng, case["ts"], case["te"], bps)
                case["interval"] = [a, b]
                if rng.random() < 0.3:
                    case["interval"] = gen.pick_interval_list(rng, case["ts"], case["te"], bps)
            else:
                case["interval"] = None
            yield case

    def check(self, case, ctx):
        ps = ctx.ps
        common.list_classes(ctx, case)
        tr = case["trains"]
        N = len(tr)
        idx = case["idx"]
        common.idx_classes(ctx, idx, N)
        sts = ctx.trains(case)
        sub = [sts[i] for i in idx]
        i0, j0 = idx[0], idx[1]
        a, b = sts[i0], sts[j0]
        kwc = case["kw"]
        auto = isinstance(kwc["MRTS"], str)
        iv = case["interval"]
        ivt = None if iv is None else (iv[0], iv[1])
        if iv is not None:
            ctx.count("interval_given")
            if isinstance(iv[0], (list, tuple)):
                ivt = [tuple(w) for w in iv]
                ctx.count("interval_list_given")
                if len(iv) >= 3:
                    ctx.count("interval_list_3+")
        ctx.sample({"trains": tr, "edges": [case["ts"], case["te"]], "kw": kwc, "indices": idx, "interval": iv})

        def eq(r1, r2, what, label):
            d = common.result_equal(ps, r1, r2)
            ctx.expect(d is None, what, "%s: %s" % (label, d))

        def run(name, kws, takes_iv):
            fn = getattr(ps, name)
            kw = {q: kwc[q] for q in kws}
            if takes_iv:
                kw["interval"] = ivt
            ctx.count("m:" + name)
            # --- bivariate forms
            r_ab = ctx.call(fn, a, b, **kw)
            r_l2 = ctx.call(fn, [a, b], **kw)
            eq(r_l2, r_ab, "forms:%s:f(a,b)!=f([a,b])" % name, "%s(a,b) vs %s([a,b]) kw=%r" % (name, name, kw))
            if not auto:
                r_ix = ctx.call(fn, sts, indices=[i0, j0], **kw)
                eq(r_ix, r_ab, "forms:%s:f(a,b)!=f(L,indices=[i,j])" % name, "%s(L, indices=%r) vs %s(a,b) kw=%r" % (name, [i0, j0], name, kw))
            # --- list forms
            r_sub = ctx.call(fn, sub, **kw)
            if len(sub) >= 3:
                ctx.count("three_arg_form")
                r_args = ctx.call(fn, *sub, **kw)
                eq(r_args, r_sub, "forms:%s:f(*sub)!=f(sub)" % name, "%s(*sub) vs %s(sub) kw=%r" % (name, name, kw))
            if not auto:
                r_idx = ctx.call(fn, sts, indices=common.vary_indices(ctx, idx), **kw)
                eq(r_idx, r_sub, "forms:%s:f(L,indices=common.vary_indices(ctx, idx))!=f(sub)" % name, "%s(L, indices=%r) vs %s(sub) kw=%r" % (name, idx, name, kw))
                if name in MULTI:
                    r_m = ctx.call(getattr(ps, MULTI[name]), sts, indices=common.vary_indices(ctx, idx), **kw)
                    eq(r_m, r_sub, "forms:%s:f_multi(L,indices=common.vary_indices(ctx, idx))!=f(sub)" % name, "%s(L, indices=%r) vs %s(sub) kw=%r" % (MULTI[name], idx, name, kw))

        for name, kws in PROFILES:
            run(name, kws, False)
        for name, kws, tiv in SCALARS:
            if name == "spike_train_order" and sum(len(tr[i]) for i in idx) == 0:
                continue
            run(name, kws, tiv)
        # directionality values
        ctx.count("m:spike_directionality_values")
        kw = {q: kwc[q] for q in ("MRTS", "max_tau")}
        v_ab = ctx.call(ps.spike_directionality_values, a, b, **kw)
        v_l2 = ctx.call(ps.spike_directionality_values, [a, b], **kw)
        eq(v_l2, v_ab, "forms:spike_directionality_values:f(a,b)!=f([a,b])", "values(a,b) vs values([a,b])")
        v_sub = ctx.call(ps.spike_directionality_values, sub, **kw)
        if len(sub) >= 3:
            eq(ctx.call(ps.spike_directionality_values, *sub, **kw), v_sub, "forms:spike_directionality_values:f(*sub)!=f(sub)", "values(*sub) vs values(sub)")
        if not auto:
            eq(ctx.call(ps.spike_directionality_values, sts, indices=common.vary_indices(ctx, idx), **kw), v_sub,
               "forms:spike_directionality_values:f(L,indices=common.vary_indices(ctx, idx))!=f(sub)", "values(L, indices=%r) vs values(sub)" % (idx,))
            eq(ctx.call(ps.spike_directionality_values, sts, indices=[i0, j0], **kw), v_ab,
               "forms:spike_directionality_values:f(a,b)!=f(L,indices=[i,j])", "values(L, indices=%r) vs values(a,b)" % ([i0, j0],))
        # matrices
        for name, kws, tiv in MATRICES:
            ctx.count("m:" + name)
            fn = getattr(ps, name)
            kw = {q: kwc[q] for q in kws}
            if tiv:
                kw["interval"] = ivt
            if auto:
                continue
            m_sub = ctx.call(fn, sub, **kw)
            m_idx = ctx.call(fn, sts, indices=common.vary_indices(ctx, idx), **kw)
            if name in SCALAR_OF_MATRIX:
                # the matrix form honours the keywords like the two-train form: entry [0,1] is f(sub[0], sub[1])
                v01 = ctx.call(getattr(ps, SCALAR_OF_MATRIX[name]), sub[0], sub[1], **kw)
                M_ = np.asarray(m_sub, dtype=float)
                if M_.ndim == 2 and M_.shape[0] >= 2:
                    ctx.close(M_[0, 1], v01, "forms:%s:entry!=f(a,b)" % name, "%s(sub)[0,1] vs %s(sub[0], sub[1]) kw=%r" % (name, SCALAR_OF_MATRIX[name], kw), rel=1e-12)
            eq(m_idx, m_sub, "forms:%s:f(L,indices=common.vary_indices(ctx, idx))!=f(sub)" % name, "%s(L, indices=%r) vs %s(sub) kw=%r" % (name, idx, name, kw))


PROP = Prop()
