"""C13 Inputs are normalised before use and never modified."""
import math
import random

import numpy as np

from .. import ref, gen
from . import common
from .common import BaseProp

EPS = 1e-6
_FE = ref.fr(EPS)


def within(t, t0, t1):
    """the statement's membership test in exact arithmetic: inside [t0, t1] widened by the 1e-6 tolerance (open ends)"""
    ft = ref.fr(t)
    return ref.fr(t0) - _FE < ft < ref.fr(t1) + _FE


def dirty(rng, s):
    """shuffled + duplicated copy of a clean train (same set of times)"""
    out = list(s)
    for t in rng.sample(s, min(len(s), rng.randint(0, 3))) if s else []:
        out.extend([t] * rng.randint(1, 2))
    rng.shuffle(out)
    return out


def kw_c13(rng, case):
    kw = common.kw_sync(rng, case)
    kw["RI"] = rng.random() < 0.3
    if rng.random() < 0.25:
        kw["MRTS"] = "auto"
    return kw


class Prop(BaseProp):
    id = "C13"
    strict_invariants = True
    rule = ("W9 dirty input: (a) reconcile_spike_trains on lists with unsorted, repeated and slightly-outside (+-1e-7, "
            "+-1e-5 beyond the global edges) spike times and differing edges: fresh objects, common edges, strictly "
            "increasing, exactly the distinct times within the 1e-6 tolerance, idempotent, no memory shared with the "
            "inputs; (b) each of the 24 public measure entry points x keyword settings (incl. MRTS='auto') on a "
            "shuffled+duplicated copy must equal the result on the clean trains, and default must equal "
            "Reconcile=False on valid input; (c) every call runs under the input-immutability guard (bytes, edges, array "
            "identity; a third of the calls with read-only arrays); (d) constructors / copy() / merge / filter / "
            "reconcile results are checked with np.shares_memory. distinct = (entry point, interleaving word, keyword "
            "regime)")
    budget = {"quick": 700, "thorough": 72000}
    must_see = ["reconcile_outside_kept_1e-7", "reconcile_outside_dropped_1e-5", "reconcile_different_edges",
                "reconcile_duplicates", "reconcile_sorted_input", "different_edges_measure_call", "inplace_edit_history", "inplace_edge_edit_history", "list_mutated_between_calls", "dirty_call", "reconcile_false_call", "mrts_auto", "constructor_alias_checked",
                "readonly_calls"] + ["ep:" + e[0] for e in common.ENTRY_POINTS] + ["ep:filter_by_spike_sync"]
    arm_files = [("pyspike/spikes.py", ["reconcile_spike_trains", "reconcile_spike_trains_bi"]), ("pyspike/generic.py", None)]
    assumptions = ["times within 4 ulp of the 1e-6 tolerance boundary are not generated (the statement's tolerance is "
                   "decimal, the comparison binary)"]

    def cases(self, rng, tier, config, k, K, n):
        eps = list(common.ENTRY_POINTS)
        for idx in range(n):
            if rng.random() < 0.8:
                case = gen.dyadic_list(rng, tier, 2, 5)
            else:
                case = gen.hostile_list(rng, tier, 2, 4)
            case["src"] = "W9"
            case["kw"] = kw_c13(rng, case)
            case["dirty"] = [dirty(rng, s) for s in case["trains"]]
            # reconcile workload: per-train edges and slightly-outside times
            ts, te = case["ts"], case["te"]
            T = te - ts
            edges = []
            for s in case["trains"]:
                a = ts + (rng.choice([0, 0, T / 8, T / 4]))
                b = te - (rng.choice([0, 0, T / 8, T / 4]))
                edges.append([a, b])
            if rng.random() < 0.5:
                edges[rng.randrange(len(edges))] = [ts, te]
            outside = []
            for s in case["trains"]:
                extra = []
                for _ in range(rng.randint(0, 2)):
                    d = rng.choice([1e-7, 1e-5, 3e-7, 5e-5])
                    extra.append(rng.choice([ts - d, te + d]))
                outside.append(extra)
            case["rec_edges"] = edges
            case["rec_outside"] = outside
            case["entry"] = [eps[(idx * 5 + q + k) % len(eps)][0] for q in range(5)]
            case["thr"] = rng.choice([0.0, 0.25, 0.5, 0.75, 1.0])
            yield case

    # ------------------------------------------------------------------
    def check(self, case, ctx):
        ps = ctx.ps
        from pyspike.spikes import reconcile_spike_trains
        common.list_classes(ctx, case)
        ts, te = case["ts"], case["te"]
        tr = case["trains"]
        N = len(tr)
        if isinstance(case["kw"]["MRTS"], str):
            ctx.count("mrts_auto")
        ctx.sample({"trains": tr, "dirty": case["dirty"], "edges": [ts, te], "kw": case["kw"], "entry_points": case["entry"]})

        # ---- (d) constructors do not alias their arguments
        ctx.count("constructor_alias_checked")
        arr = np.array(tr[0], dtype=float)
        st = ctx.call(ps.SpikeTrain, arr, [ts, te], _name="SpikeTrain", _readonly=False)
        ctx.expect(not np.shares_memory(st.spikes, arr), "alias:SpikeTrain(arr)", "SpikeTrain keeps a view of the caller's array")
        c = ctx.call(st.copy, _name="SpikeTrain.copy")
        ctx.expect(not np.shares_memory(st.spikes, c.spikes), "alias:SpikeTrain.copy", "copy shares memory with the original")
        ctx.expect(np.array_equal(c.spikes, st.spikes) and c.t_start == st.t_start and c.t_end == st.t_end, "SpikeTrain.copy-not-equal",
                   "copy() differs from the original: %s on [%r,%r] vs %s on [%r,%r]" % (common.short(common.tl(c.spikes)), c.t_start, c.t_end,
                                                                                       common.short(common.tl(st.spikes)), st.t_start, st.t_end))
        x = np.array([ts, (ts + te) / 2, te])
        y = np.array([1.0, 2.0])
        for nm, mk in (("PieceWiseConstFunc", lambda: ps.PieceWiseConstFunc(x, y)), ("PieceWiseLinFunc", lambda: ps.PieceWiseLinFunc(x, y, y)),
                       ("DiscreteFunc", lambda: ps.DiscreteFunc(x, np.array([1.0, 1.0, 1.0]), np.array([1.0, 1.0, 1.0])))):
            o = ctx.call(mk, _name=nm)
            for n_ in ("x", "y", "y1", "y2", "mp"):
                if hasattr(o, n_):
                    ctx.expect(not np.shares_memory(getattr(o, n_), x) and not np.shares_memory(getattr(o, n_), y),
                               "alias:%s(arr)" % nm, "%s.%s shares memory with the constructor argument" % (nm, n_))

        # ---- (a) reconcile
        rin = []
        for s, e, out in zip(case["dirty"], case["rec_edges"], case["rec_outside"]):
            v = list(s) + list(out)
            random.Random(repr(v)).shuffle(v)
            rin.append(ps.SpikeTrain(np.array(v, dtype=float), e))
        if len({tuple(e) for e in case["rec_edges"]}) > 1:
            ctx.count("reconcile_different_edges")
        if any(len(set(s)) < len(s) for s in case["dirty"]):
            ctx.count("reconcile_duplicates")
        t0 = min(e[0] for e in case["rec_edges"])
        t1 = max(e[1] for e in case["rec_edges"])
        rout = ctx.call(reconcile_spike_trains, rin, _name="reconcile_spike_trains")
        if ctx.expect(isinstance(rout, list) and len(rout) == len(rin), "reconcile:shape", "reconcile returned %s" % common.short(rout)):
            for q, (a, b) in enumerate(zip(rin, rout)):
                ctx.expect(b is not a, "reconcile:returns-input-object", "train %d: the input object itself is returned" % q)
                ctx.expect(not np.shares_memory(np.asarray(a.spikes), np.asarray(b.spikes)), "reconcile:aliases-input", "train %d shares memory with the input" % q)
                ctx.expect(b.t_start == t0 and b.t_end == t1, "reconcile:edges", "train %d has edges [%r,%r], expected [%r,%r]" % (q, b.t_start, b.t_end, t0, t1))
                sp = np.asarray(b.spikes, dtype=float)
                ctx.expect(bool(np.all(np.diff(sp) > 0)), "reconcile:not-strictly-increasing", "train %d: %s" % (q, common.short(sp.tolist())))
                want = sorted({float(t) for t in np.asarray(a.spikes).tolist() if within(t, t0, t1)})
                for t in np.asarray(a.spikes).tolist():
                    if t < t0 or t > t1:
                        if within(t, t0, t1):
                            ctx.count("reconcile_outside_kept_1e-7")
                        else:
                            ctx.count("reconcile_outside_dropped_1e-5")
                ctx.expect(sp.tolist() == want, "reconcile:spike-set", "train %d: got %s, expected the distinct input times within the 1e-6 tolerance %s"
                           % (q, common.short(sp.tolist()), common.short(want)))
            again = ctx.call(reconcile_spike_trains, rout, _name="reconcile_spike_trains")
            d = common.result_equal(ps, again, rout, 0)
            ctx.expect(d is None, "reconcile:not-idempotent", "second reconcile changes the trains: %s" % d)
        # the same on already sorted, duplicate-free trains that still have spikes outside the common interval
        # (a fast path for "already valid" trains must not hand back or modify the caller's objects)
        ctx.count("reconcile_sorted_input")
        sin = [ps.SpikeTrain(np.array(sorted(set(list(s) + list(out))), dtype=float), e)
               for s, e, out in zip(case["trains"], case["rec_edges"], case["rec_outside"])]
        sout = ctx.call(reconcile_spike_trains, sin, _name="reconcile_spike_trains(sorted)")
        if isinstance(sout, list) and len(sout) == len(sin):
            for q, (a, b) in enumerate(zip(sin, sout)):
                ctx.expect(b is not a and not np.shares_memory(np.asarray(a.spikes), np.asarray(b.spikes)), "reconcile:returns-input-object",
                           "sorted input train %d is returned / aliased" % q)
                want = [float(t) for t in np.asarray(a.spikes).tolist() if within(t, t0, t1)]
                ctx.expect(np.asarray(b.spikes, dtype=float).tolist() == want and b.t_start == t0 and b.t_end == t1, "reconcile:spike-set",
                           "sorted input train %d: got %s on [%r,%r], expected %s on [%r,%r]" % (q, common.short(np.asarray(b.spikes).tolist()), b.t_start, b.t_end, common.short(want), t0, t1))
        # every measure reconciles by default: trains with different edges give the result of the reconciled list.
        # (one train carries the full interval so that every spike lies inside the common interval: measures on trains
        # with spikes outside their edges are outside every statement)
        eds = [list(e) for e in case["rec_edges"]]
        eds[0] = [ts, te]
        if len({tuple(e) for e in eds}) > 1:
            ctx.count("different_edges_measure_call")
            ein = [ps.SpikeTrain(np.array(s, dtype=float), e) for s, e in zip(case["dirty"], eds)]
            kwc = case["kw"]
            for name in case["entry"][:3]:
                _, form, kws, _iv = [e for e in common.ENTRY_POINTS if e[0] == name][0]
                fn = getattr(ps, name)
                kw = {q: kwc[q] for q in kws}
                if form == "bi" or (form == "any" and len(ein) == 2):
                    a_raw = (ein[0], ein[1])
                    a_rec = tuple(ctx.call(reconcile_spike_trains, [ein[0], ein[1]], _name="reconcile_spike_trains"))
                else:
                    a_raw = (ein,)
                    a_rec = (ctx.call(reconcile_spike_trains, ein, _name="reconcile_spike_trains"),)
                r_raw = ctx.call(fn, *a_raw, **kw)
                r_rec = ctx.call(fn, *a_rec, Reconcile=False, **kw)
                d = common.result_equal(ps, r_raw, r_rec)
                ctx.expect(d is None, "different-edges:result!=reconciled-list:" + name,
                           "%s on trains with different edges differs from the same call on the reconciled list (Reconcile=False): %s" % (name, d))

        # ---- (b) measures on dirty vs clean input; default vs Reconcile=False
        clean = ctx.trains(case)
        dirt = [ps.SpikeTrain(np.array(s, dtype=float), [ts, te]) for s in case["dirty"]]
        kwc = case["kw"]
        for name in case["entry"]:
            _, form, kws, _iv = [e for e in common.ENTRY_POINTS if e[0] == name][0]
            fn = getattr(ps, name)
            kw = {q: kwc[q] for q in kws}
            ctx.count("ep:" + name)
            use_bi = form == "bi" or (form == "any" and (N == 2 or (hash(name) + len(tr[0])) % 2 == 0))
            if use_bi:
                a_clean, a_dirty = (clean[0], clean[1]), (dirt[0], dirt[1])
            else:
                a_clean, a_dirty = (clean,), (dirt,)
            r_clean = ctx.call(fn, *a_clean, **kw)
            ctx.count("dirty_call")
            r_dirty = ctx.call(fn, *a_dirty, **kw)
            d = common.result_equal(ps, r_dirty, r_clean)
            ctx.expect(d is None, "dirty-input-changes-result:" + name, "%s on shuffled/duplicated spike times differs from the clean result: %s" % (name, d))
            ctx.count("reconcile_false_call")
            r_off = ctx.call(fn, *a_clean, Reconcile=False, **kw)
            d = common.result_equal(ps, r_off, r_clean)
            ctx.expect(d is None, "reconcile-off-differs:" + name, "%s(Reconcile=False) on valid input differs from the default: %s" % (name, d))
        # ---- history on ONE object: use it, edit its spike array in place (a user's own action), use it again.
        # The second result must be the result for the object's CURRENT content (state cached across calls would show).
        ctx.count("inplace_edit_history")
        h = ps.SpikeTrain(np.array(case["dirty"][0], dtype=float), [ts, te])
        other = clean[1]
        for name in case["entry"][:2]:
            _, form, kws, _iv = [e for e in common.ENTRY_POINTS if e[0] == name][0]
            fn = getattr(ps, name)
            kw = {q: kwc[q] for q in kws}
            args1 = (h, other) if form in ("bi", "any") else ([h, other],)
            ctx.call(fn, *args1, **kw)
            if len(h.spikes):
                T_ = te - ts
                # shift every spike towards the middle of the recording, in place (same array object)
                h.spikes *= 0.5
                h.spikes += (ts + te) / 4.0
            fresh = ps.SpikeTrain(h.spikes.copy(), [ts, te])
            args2 = (h, other) if form in ("bi", "any") else ([h, other],)
            args3 = (fresh, other) if form in ("bi", "any") else ([fresh, other],)
            r_used = ctx.call(fn, *args2, **kw)
            r_fresh = ctx.call(fn, *args3, **kw)
            d = common.result_equal(ps, r_used, r_fresh)
            ctx.expect(d is None, "stale-state-after-inplace-edit:" + name,
                       "%s on a train that was used before and then edited in place differs from a fresh train with the same content: %s" % (name, d))
        # the same with the EDGES edited in place and reconciliation switched off (valid trains; an empty one included,
        # whose auxiliary edge spikes must follow the current edges)
        ctx.count("inplace_edge_edit_history")
        e1 = ps.SpikeTrain(np.array([], dtype=float), [ts, te])
        e2 = ps.SpikeTrain(np.array(sorted(set(tr[0])), dtype=float), [ts, te])
        for name in ("isi_profile", "spike_profile", "isi_distance", "spike_distance", "spike_sync_profile"):
            fn = getattr(ps, name)
            ctx.call(fn, e1, e2, Reconcile=False, _repeat=False)
        T_ = te - ts
        for o in (e1, e2):
            o.t_start = ts - T_ / 4
            o.t_end = te + T_ / 2
        f1 = ps.SpikeTrain(np.array([], dtype=float), [e1.t_start, e1.t_end])
        f2 = ps.SpikeTrain(e2.spikes.copy(), [e2.t_start, e2.t_end])
        for name in ("isi_profile", "spike_profile", "isi_distance", "spike_distance", "spike_sync_profile"):
            fn = getattr(ps, name)
            r_used = ctx.call(fn, e1, e2, Reconcile=False, _repeat=False)
            r_fresh = ctx.call(fn, f1, f2, Reconcile=False, _repeat=False)
            d = common.result_equal(ps, r_used, r_fresh)
            ctx.expect(d is None, "stale-state-after-inplace-edit:edges:" + name,
                       "%s(Reconcile=False) on trains whose edges were changed in place differs from fresh trains with the same content: %s" % (name, d))
        rr = ctx.call(reconcile_spike_trains, [h, other], _name="reconcile_spike_trains")
        want = sorted({float(t) for t in common.tl(h.spikes) if within(t, ts, te)})
        ctx.expect(np.asarray(rr[0].spikes, dtype=float).tolist() == want, "stale-state-after-inplace-edit:reconcile",
                   "reconcile of an edited train returns %s, its current distinct spike times are %s" % (common.short(np.asarray(rr[0].spikes).tolist()), common.short(want)))
        # ---- history on ONE list object: use it, replace an element in place, use it again at once.
        # The second result must describe the list's CURRENT content (a result cached per list object would show).
        if N >= 2:
            ctx.count("list_mutated_between_calls")
            L = list(clean)
            repl = ps.SpikeTrain(np.array(sorted({ts + (te - ts) * f for f in (0.125, 0.375, 0.8125)}), dtype=float), [ts, te])
            for name in case["entry"][2:5]:
                _, form, kws, _iv = [e for e in common.ENTRY_POINTS if e[0] == name][0]
                if form == "bi":
                    continue
                fn = getattr(ps, name)
                kw = {q: kwc[q] for q in kws}
                L[:] = list(clean)
                ctx.call(fn, L, _repeat=False, **kw)
                L[N - 1] = repl
                r_same = ctx.call(fn, L, _repeat=False, **kw)
                r_new = ctx.call(fn, list(L), _repeat=False, **kw)
                d = common.result_equal(ps, r_same, r_new)
                ctx.expect(d is None, "stale-state-after-list-mutation:" + name,
                           "%s on a list whose element was replaced in place differs from the same trains in a fresh list: %s" % (name, d))
        # filter
        ctx.count("ep:filter_by_spike_sync")
        kw = {"MRTS": kwc["MRTS"], "max_tau": kwc["max_tau"]}
        f_clean = ctx.call(ps.filter_by_spike_sync, clean, case["thr"], return_removed_spikes=True, **kw)
        f_dirty = ctx.call(ps.filter_by_spike_sync, dirt, case["thr"], return_removed_spikes=True, **kw)
        d = common.result_equal(ps, f_dirty, f_clean)
        ctx.expect(d is None, "dirty-input-changes-result:filter_by_spike_sync", "filter on dirty input differs: %s" % d)
        f_off = ctx.call(ps.filter_by_spike_sync, clean, case["thr"], return_removed_spikes=True, Reconcile=False, **kw)
        d = common.result_equal(ps, f_off, f_clean)
        ctx.expect(d is None, "reconcile-off-differs:filter_by_spike_sync", "filter(Reconcile=False) differs: %s" % d)
        for grp in f_clean:
            for q, o in enumerate(grp):
                ctx.expect(not any(np.shares_memory(o.spikes, c.spikes) for c in clean), "alias:filter-result", "filtered train %d shares memory with an input" % q)
        # merge
        mg = ctx.call(ps.merge_spike_trains, clean, _name="merge_spike_trains")
        ctx.expect(not any(np.shares_memory(mg.spikes, c.spikes) for c in clean), "alias:merge-result", "merged train shares memory with an input")
        one = ctx.call(ps.merge_spike_trains, [clean[0]], _name="merge_spike_trains", _readonly=True)
        ctx.expect(not np.shares_memory(one.spikes, clean[0].spikes), "alias:merge-result", "merge of a single train shares memory with it")

    def finish(self, ctx):
        ctx.count("readonly_calls", ctx.readonly_calls)


PROP = Prop()
