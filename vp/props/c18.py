"""C18 Every valid input yields a finite, well-formed result without error."""
import numpy as np

from .. import ref, gen
from . import common
from .common import BaseProp


def kw_c18(rng, case):
    kw = common.kw_sync(rng, case)
    kw["RI"] = rng.random() < 0.4
    if rng.random() < 0.2:
        kw["MRTS"] = "auto"
    return kw


class Prop(BaseProp):
    id = "C18"
    rule = ("W3 full degenerate product (10 shapes: empty, one spike on t_start / t_end / inside, both edges, ...) for 2 and "
            "3 trains on three recording intervals, W5 lists with degenerate members and identical trains, W1/W2 pairs; x "
            "keyword settings (MRTS numeric/'auto', RI, max_tau) x whole recording and W6 sub-intervals. Every one of the 24 "
            "public measure entry points (+filter) must return without exception; profiles must start at t_start, end at "
            "t_end, be strictly increasing (discrete: non-decreasing interior, two edge entries), have consistent array "
            "lengths and finite values; scalars and matrices must be finite. distinct = (entry form, interleaving word, "
            "keyword regime)")
    budget = {"quick": 900, "thorough": 100000}
    must_see = ["src_W3", "src_W3x3", "empty_train", "one_spike_train_on_t_start", "one_spike_train_on_t_end", "identical_trains",
                "all_empty", "interval_given", "mrts_auto", "RI_true", "max_tau_positive", "N>=3"] + \
               ["ep:" + e[0] for e in common.ENTRY_POINTS] + ["ep:filter_by_spike_sync"]
    arm_files = [("pyspike/spike_directionality.py", None), ("pyspike/spike_sync.py", None), ("pyspike/SpikeTrain.py", None)]
    assumptions = ["valid input only (sorted, duplicate-free, inside the edges)"]

    def cases(self, rng, tier, config, k, K, n):
        pairs = common.pair_stream(rng, tier, n, k, K, kw_fn=kw_c18, with_w4=False)
        lists = common.list_stream(rng, tier, n, k, K, kw_fn=kw_c18, nmin=3, nmax_trains=5)
        for idx in range(n):
            r = rng.random()
            case = next(pairs) if r < 0.45 else next(lists)
            if r > 0.9 and len(case["trains"]) > 2:
                case["trains"][1] = list(case["trains"][0])
            if rng.random() < 0.5:
                bps = sorted({t for s in case["trains"] for t in s})
                a, b, kd = gen.pick_interval(rng, case["ts"], case["te"], bps)
                case["interval"] = [a, b]
            else:
                case["interval"] = None
            case["thr"] = rng.choice([0.0, 0.5, 1.0])
            yield case

    def wellformed(self, ctx, name, r, ts, te):
        ps = ctx.ps
        if isinstance(r, (ps.PieceWiseConstFunc, ps.PieceWiseLinFunc)):
            x = np.asarray(r.x, dtype=float)
            cols = [r.y] if isinstance(r, ps.PieceWiseConstFunc) else [r.y1, r.y2]
            ok = len(x) >= 2 and x[0] == ts and x[-1] == te and bool(np.all(np.diff(x) > 0)) and all(len(c) == len(x) - 1 for c in cols)
            ctx.expect(ok, "malformed-profile:" + name, "%s: x=%s, lengths %s" % (name, common.short(x.tolist()), [len(c) for c in cols]))
            ctx.expect(all(common.finite(c) for c in cols), "nonfinite:" + name, "%s: non-finite profile values %s" % (name, common.short([np.asarray(c).tolist() for c in cols])))
        elif isinstance(r, ps.DiscreteFunc):
            x = np.asarray(r.x, dtype=float)
            ok = len(x) >= 2 and x[0] == ts and x[-1] == te and len(r.y) == len(x) == len(r.mp) and bool(np.all(np.diff(x) >= 0)) \
                and (len(x) <= 3 or bool(np.all(np.diff(x[1:-1]) > 0)))
            ctx.expect(ok, "malformed-profile:" + name, "%s: x=%s len(y)=%d len(mp)=%d" % (name, common.short(x.tolist()), len(r.y), len(r.mp)))
            ctx.expect(common.finite(r.y) and common.finite(r.mp), "nonfinite:" + name, "%s: non-finite entries y=%s mp=%s" % (name, common.short(r.y.tolist()), common.short(r.mp.tolist())))
        elif isinstance(r, (list, tuple)):
            for q, e in enumerate(r):
                if isinstance(e, ps.SpikeTrain):
                    ctx.expect(common.finite(e.spikes), "nonfinite:" + name, "non-finite spikes")
                else:
                    ctx.expect(common.finite(e), "nonfinite:" + name, "%s[%d] = %s" % (name, q, common.short(np.asarray(e).tolist())))
        else:
            ctx.expect(common.finite(r), "nonfinite:" + name, "%s returned %s" % (name, common.short(np.asarray(r).tolist())))

    def check(self, case, ctx):
        ps = ctx.ps
        tr = case["trains"]
        ts, te = case["ts"], case["te"]
        N = len(tr)
        if N == 2:
            common.pair_classes(ctx, case)
        else:
            common.list_classes(ctx, case)
            if any(len(s) == 0 for s in tr):
                ctx.count("empty_train")
            if any(len(s) == 1 and s[0] == ts for s in tr):
                ctx.count("one_spike_train_on_t_start")
            if any(len(s) == 1 and s[0] == te for s in tr):
                ctx.count("one_spike_train_on_t_end")
            if any(tr[i] == tr[j] and tr[i] for i in range(N) for j in range(i)):
                ctx.count("identical_trains")
        if all(len(s) == 0 for s in tr):
            ctx.count("all_empty")
        kwc = case["kw"]
        if isinstance(kwc["MRTS"], str):
            ctx.count("mrts_auto")
        iv = case["interval"]
        ivt = None if iv is None else (iv[0], iv[1])
        if iv is not None:
            ctx.count("interval_given")
        sts = ctx.trains(case)
        ctx.sample({"trains": tr, "edges": [ts, te], "kw": kwc, "interval": iv})
        dc = common.degenerate_class(case) if N == 2 else "list"
        for name, form, kws, takes_iv in common.ENTRY_POINTS:
            fn = getattr(ps, name)
            kw = {q: kwc[q] for q in kws}
            if takes_iv:
                kw["interval"] = ivt
            forms = []
            if form in ("bi", "any"):
                forms.append(("bi", (sts[0], sts[1])))
            if form in ("list", "any"):
                forms.append(("list", (sts,)))
            for fname, args in forms:
                ctx.count("ep:" + name)
                try:
                    r = ctx.call(fn, *args, _name=name, **kw)
                except common_cutfailed():
                    continue
                self.wellformed(ctx, name, r, ts, te)
        ctx.count("ep:filter_by_spike_sync")
        r = ctx.call(ps.filter_by_spike_sync, sts, case["thr"], return_removed_spikes=True, MRTS=kwc["MRTS"], max_tau=kwc["max_tau"])
        for grp in r:
            for st in grp:
                ctx.expect(st.t_start == ts and st.t_end == te and common.finite(st.spikes), "malformed:filter_by_spike_sync", "filter result malformed")


def common_cutfailed():
    from ..harness import CutFailed
    return CutFailed


PROP = Prop()
