"""C19 Spike trains survive text round-trips and imports unchanged."""
import math
import os
import shutil
import tempfile

import numpy as np

from .. import ref, gen
from . import common
from .common import BaseProp

SEPS = [" ", ",", ";", "\t", ", ", "  ", " ; "]
COMMENTS = ["#", "%", "//", "c "]


def fmt_ulp(t, p):
    """half a unit in the last printed digit of '%.<p>e' % t"""
    s = ("{0:.%de}" % p).format(t)
    exp = int(s.split("e")[1])
    return 0.5 * 10.0 ** (exp - p)


class Prop(BaseProp):
    id = "C19"
    configs = ("fallback",)
    class_invariants = False
    kernel_contracts = False
    rule = ("W10: lists of 1..6 spike trains incl. empty ones (dyadic and hostile float times, negative times, t=0) saved with "
            "7 separators x precisions 1..17 and loaded back (count, order, error <= half a unit of the last printed digit, "
            "bit-identical at 17; empty trains with ignore_empty_lines False/True; comment lines with 4 comment strings; "
            "unsorted lines); spike_train_from_string with exact repr strings; 0/1 matrices r x c for r,c in 1..6 (incl. 1 x c, "
            "r x 1, all-zero rows) with dyadic and non-dyadic start/bin; scalar edges of python and numpy types. distinct = "
            "(kind, separator, precision, shape, flags)")
    budget = {"quick": 3000, "thorough": 1000000}
    must_see = ["roundtrip", "precision_17", "precision_1", "empty_train_kept", "empty_train_dropped", "comment_lines", "unsorted_line",
                "from_string", "from_string_repeated_time", "timeseries", "timeseries_1xc", "timeseries_rx1", "timeseries_zero_row", "timeseries_nondyadic",
                "scalar_edge", "numpy_scalar_edge", "last_train_empty"] + ["sep:%r" % s for s in SEPS]
    arm_files = [("pyspike/spikes.py", ["spike_train_from_string", "load_spike_trains_from_txt", "import_spike_trains_from_time_series",
                                         "save_spike_trains_to_txt"]), ("pyspike/SpikeTrain.py", None)]
    assumptions = ["separators are drawn from a fixed list of 7 usual ones; comment strings from 4",
                   "files live in a per-process temporary directory that is removed at exit"]

    def setup(self, ctx):
        self.tmp = tempfile.mkdtemp(prefix="vp_c19_")
        self.n = 0

    def finish(self, ctx):
        shutil.rmtree(self.tmp, ignore_errors=True)

    def cases(self, rng, tier, config, k, K, n):
        for idx in range(n):
            kind = rng.choice(["roundtrip", "roundtrip", "roundtrip", "string", "timeseries", "timeseries", "edges"])
            case = {"kind": kind}
            if kind in ("roundtrip", "string", "edges"):
                base = gen.dyadic_list(rng, tier, 1, 6) if rng.random() < 0.5 else gen.hostile_list(rng, tier, 1, 6)
                trains = base["trains"]
                if rng.random() < 0.3:
                    trains[-1] = []
                if rng.random() < 0.2:
                    trains[0] = []
                case.update(ts=base["ts"], te=base["te"], trains=trains, sep=rng.choice(SEPS), precision=rng.choice([1, 2, 3, 5, 8, 8, 12, 15, 16, 17, 17]),
                            comment=rng.choice(COMMENTS), n_comments=rng.choice([0, 0, 1, 3]), ignore_empty=rng.random() < 0.5,
                            shuffle=rng.random() < 0.3, seed=rng.randrange(1 << 30),
                            edge_kind=rng.choice(["float", "int", "np.float64", "np.int64", "np.float32", "0d-array", "pair-list", "pair-tuple", "pair-array"]))
            else:
                r = rng.choice([1, 1, 2, 3, 4, 6])
                c = rng.choice([1, 1, 2, 3, 5, 6])
                mat = [[1 if rng.random() < 0.4 else 0 for _ in range(c)] for _ in range(r)]
                if rng.random() < 0.3:
                    mat[rng.randrange(r)] = [0] * c
                dy = rng.random() < 0.6
                start = rng.choice([0.0, 1.0, -4.0, 10.0, 0.5]) if dy else rng.choice([0.1, 10.3, -2.7, 1e3 + 0.1])
                tb = rng.choice([1.0, 0.5, 0.25, 2.0]) if dy else rng.choice([0.1, 0.3, 1e-3, 0.7])
                case.update(mat=mat, start=start, bin=tb, dyadic=dy, comment=rng.choice(["#", "%"]), n_comments=rng.choice([0, 1]),
                            sep=rng.choice([None, None, ",", ";"]), as_int=rng.random() < 0.7)
            yield case

    def path(self):
        self.n += 1
        return os.path.join(self.tmp, "f%d.txt" % self.n)

    def check(self, case, ctx):
        ps = ctx.ps
        kind = case["kind"]
        ctx.sample(case)
        if kind == "roundtrip":
            self.roundtrip(case, ctx)
        elif kind == "string":
            self.from_string(case, ctx)
        elif kind == "edges":
            self.edges(case, ctx)
        else:
            self.timeseries(case, ctx)

    # ----------------------------------------------------------------------------------
    def roundtrip(self, case, ctx):
        ps = ctx.ps
        import random
        ts, te, trains, sep, p = case["ts"], case["te"], case["trains"], case["sep"], case["precision"]
        ctx.count("roundtrip")
        ctx.count("sep:%r" % sep)
        if p == 17:
            ctx.count("precision_17")
        if p == 1:
            ctx.count("precision_1")
        ctx.word(("rt", sep, p, [len(s) for s in trains], case["n_comments"], case["ignore_empty"], case["shuffle"]), True)
        sts = [ps.SpikeTrain(np.array(s, dtype=float), [ts, te]) for s in trains]
        fn = self.path()
        ctx.call(ps.save_spike_trains_to_txt, sts, fn, separator=sep, precision=p)
        r2 = random.Random(case["seed"])
        if case["n_comments"] or case["shuffle"]:
            lines = open(fn).read().split("\n")[:-1]
            if case["shuffle"]:
                ctx.count("unsorted_line")
                out = []
                for ln in lines:
                    toks = ln.split(sep) if ln else []
                    r2.shuffle(toks)
                    out.append(sep.join(toks))
                lines = out
            for _ in range(case["n_comments"]):
                ctx.count("comment_lines")
                lines.insert(r2.randrange(len(lines) + 1), case["comment"] + " 1.0 2.0 a comment line")
            with open(fn, "w") as f:
                f.write("\n".join(lines) + "\n")
        if trains and not trains[-1]:
            ctx.count("last_train_empty")
        loaded = ctx.call(ps.load_spike_trains_from_txt, fn, [ts, te], separator=sep, comment=case["comment"], ignore_empty_lines=case["ignore_empty"])
        os.remove(fn)
        expect = trains if not case["ignore_empty"] else [s for s in trains if s]
        if any(not s for s in trains):
            ctx.count("empty_train_dropped" if case["ignore_empty"] else "empty_train_kept")
        if not ctx.expect(len(loaded) == len(expect), "roundtrip:count", "saved %d trains (%d empty), loaded %d with ignore_empty_lines=%r (sep %r)"
                          % (len(trains), sum(1 for s in trains if not s), len(loaded), case["ignore_empty"], sep)):
            return
        for q, (l, s) in enumerate(zip(loaded, expect)):
            ctx.expect(l.t_start == ts and l.t_end == te, "roundtrip:edges", "train %d edges [%r,%r]" % (q, l.t_start, l.t_end))
            got = common.tl(l.spikes)
            if not ctx.expect(len(got) == len(s), "roundtrip:spike-count", "train %d: %d spikes saved, %d loaded (sep %r, precision %d): %s" % (q, len(s), len(got), sep, p, common.short(got))):
                continue
            ctx.expect(got == sorted(got), "roundtrip:not-sorted", "train %d not sorted after loading: %s" % (q, common.short(got)))
            for a, b in zip(got, s):
                if p >= 17:
                    ctx.expect(a == b, "roundtrip:not-bit-identical", "precision 17: %r loaded as %r" % (b, a))
                else:
                    allowed = fmt_ulp(b, p) * (1 + 1e-9) + math.ulp(b)      # decimal rounding + nearest-float parsing
                    ctx.expect(abs(a - b) <= allowed, "roundtrip:precision", "precision %d: %r loaded as %r (allowed error %g)" % (p, b, a, allowed))

    def from_string(self, case, ctx):
        ps = ctx.ps
        import random
        ctx.count("from_string")
        ts, te, sep = case["ts"], case["te"], case["sep"]
        ctx.count("sep:%r" % sep)
        s = [t for t in case["trains"][0]]
        r2 = random.Random(case["seed"])
        if s and r2.random() < 0.3:
            # a string may list a time more than once: "exactly the listed times"
            ctx.count("from_string_repeated_time")
            s = s + [r2.choice(s)]
        toks = [repr(t) for t in s]
        if case["shuffle"]:
            r2.shuffle(toks)
        ctx.word(("str", sep, len(s), case["shuffle"]), True)
        st = ctx.call(ps.spike_train_from_string, sep.join(toks), [ts, te], sep=sep)
        ctx.expect(common.tl(st.spikes) == sorted(s), "from_string:times", "string %r gives %s, expected %s" % (sep.join(toks)[:200], common.short(common.tl(st.spikes)), common.short(sorted(s))))
        ctx.expect(st.t_start == ts and st.t_end == te, "from_string:edges", "edges [%r,%r]" % (st.t_start, st.t_end))
        st2 = ctx.call(ps.spike_train_from_string, sep.join(toks), [ts, te], sep=sep, is_sorted=True)
        ctx.expect(common.tl(st2.spikes) == [float(t) for t in toks], "from_string:is_sorted", "is_sorted=True must keep the listed order")

    def edges(self, case, ctx):
        ps = ctx.ps
        ek = case["edge_kind"]
        e = abs(case["te"]) + 1.0
        e = float(math.ceil(e))
        spikes = [t for t in case["trains"][0] if 0 <= t <= e]
        mk = {"float": lambda: e, "int": lambda: int(e), "np.float64": lambda: np.float64(e), "np.int64": lambda: np.int64(e),
              "np.float32": lambda: np.float32(e), "0d-array": lambda: np.array(e)}
        if ek == "np.float32" and float(np.float32(e)) != e:
            ek = "np.float64"            # the value must survive the chosen type exactly (2**40 + 65 does not fit binary32)
        ctx.word(("edges", ek), True)
        if ek in mk:
            ctx.count("scalar_edge")
            if ek not in ("float", "int"):
                ctx.count("numpy_scalar_edge")
            st = ctx.call(ps.SpikeTrain, np.array(spikes), mk[ek](), _name="SpikeTrain(scalar edge)")
            ctx.expect(st.t_start == 0.0 and st.t_end == e, "scalar-edge", "SpikeTrain(..., %s %r) has edges [%r,%r], expected [0,%r]" % (ek, e, st.t_start, st.t_end, e))
            st = ctx.call(ps.spike_train_from_string, " ".join(repr(t) for t in spikes), mk[ek](), _name="spike_train_from_string(scalar edge)")
            ctx.expect(st.t_start == 0.0 and st.t_end == e and common.tl(st.spikes) == spikes, "scalar-edge", "spike_train_from_string with scalar edge %s" % ek)
        else:
            pair = {"pair-list": [case["ts"], case["te"]], "pair-tuple": (case["ts"], case["te"]), "pair-array": np.array([case["ts"], case["te"]])}[ek]
            st = ctx.call(ps.SpikeTrain, np.array(case["trains"][0]), pair, _name="SpikeTrain(pair edge)")
            ctx.expect(st.t_start == case["ts"] and st.t_end == case["te"], "pair-edge", "SpikeTrain(..., %s) has edges [%r,%r]" % (ek, st.t_start, st.t_end))

    def timeseries(self, case, ctx):
        ps = ctx.ps
        ctx.count("timeseries")
        mat, start, tb = case["mat"], case["start"], case["bin"]
        r, c = len(mat), len(mat[0])
        if r == 1:
            ctx.count("timeseries_1xc")
        if c == 1:
            ctx.count("timeseries_rx1")
        if any(not any(row) for row in mat):
            ctx.count("timeseries_zero_row")
        if not case["dyadic"]:
            ctx.count("timeseries_nondyadic")
        ctx.word(("ts", r, c, case["dyadic"], case["sep"], case["n_comments"]), True)
        fn = self.path()
        sep = case["sep"]
        with open(fn, "w") as f:
            if case["n_comments"]:
                f.write(case["comment"] + " header\n")
            for row in mat:
                f.write((sep or " ").join((str(v) if case["as_int"] else "%.1f" % v) for v in row) + "\n")
        sts = ctx.call(ps.import_spike_trains_from_time_series, fn, start, tb, separator=sep, comment=case["comment"])
        os.remove(fn)
        if not ctx.expect(len(sts) == r, "timeseries:count:%s" % ("1xc" if r == 1 else "rx1" if c == 1 else "rxc"), "%d x %d matrix gives %d trains" % (r, c, len(sts))):
            return
        end = start + c * tb
        for q, (st, row) in enumerate(zip(sts, mat)):
            want = [start + (j + 1) * tb for j, v in enumerate(row) if v]
            got = common.tl(st.spikes)
            tol = 0.0 if case["dyadic"] else 4 * max(abs(start), abs(end), 1e-300) * 2.0 ** -52
            ok = len(got) == len(want) and all(abs(a - b) <= tol for a, b in zip(got, want))
            ctx.expect(ok, "timeseries:times", "row %d %s with start %r bin %r gives %s, expected %s" % (q, row, start, tb, common.short(got), common.short(want)))
            ctx.expect(st.t_start == start and abs(st.t_end - end) <= tol, "timeseries:edges", "edges [%r,%r], expected [%r,%r]" % (st.t_start, st.t_end, start, end))


PROP = Prop()
