"""C05 Every scalar measure equals the average of its profile over the same interval."""
import numpy as np

from .. import ref, gen
from . import common
from .common import BaseProp


def kw_all(rng, case):
    kw = common.kw_sync(rng, case)
    kw["RI"] = rng.random() < 0.3
    if rng.random() < 0.1:
        kw["MRTS"] = "auto"
    return kw


class Prop(BaseProp):
    id = "C05"
    rule = ("lists of 2..8 trains (W5) x keyword settings (MRTS numeric/'auto', RI, max_tau) x W6 intervals (None, "
            "ends on breakpoints / between / same piece / on t_start / on t_end / without events); for ISI, SPIKE, "
            "SPIKE-Sync and spike-train order the value returned by the distance function is compared with an exact "
            "rational integration of the arrays of the returned profile (and with profile.avrg); N=2 goes through the "
            "bivariate call form. distinct = interleaving words incl. keyword regime and interval kind")
    budget = {"quick": 900, "thorough": 160000}
    must_see = ["interval_none", "interval_bp_bp", "interval_half_half", "interval_same_piece", "interval_from_start",
                "interval_to_end", "interval_list", "interval_list_touching", "interval_list_not_in_time_order", "interval_without_events", "N>=3", "bivariate_form", "RI_true", "max_tau_positive",
                "mrts_positive", "mrts_auto", "order_checked", "sync_checked", "indices_selection", "indices_non_prefix"]
    arm_files = [("pyspike/PieceWiseConstFunc.py", ["integral", "avrg"]), ("pyspike/PieceWiseLinFunc.py", ["integral", "avrg"]),
                 ("pyspike/DiscreteFunc.py", ["integral", "avrg"]), ("pyspike/generic.py", None)]
    assumptions = ["the profile returned by the code under test is taken as given; its integration is redone exactly",
                   "tolerance for ISI/SPIKE averages: 1e-9*T/(b-a) (the implementation obtains partial pieces by "
                   "subtraction; see DESIGN 2.2)",
                   "spike-train order with zero summed multiplicity is not judged here (0/0 is left to C18)"]

    def cases(self, rng, tier, config, k, K, n):
        for case in common.list_stream(rng, tier, n, k, K, kw_fn=kw_all, nmin=2, nmax_trains=6 if tier == "quick" else 8):
            ts, te = case["ts"], case["te"]
            bps = sorted({t for s in case["trains"] for t in s})
            r = rng.random()
            if r < 0.3:
                case["interval"] = None
                case["ikind"] = "none"
            elif r < 0.42:
                # a list of two disjoint intervals (the distance functions accept what avrg accepts)
                a, b, kind = gen.pick_interval(rng, ts, te, bps)
                cut = sorted({t for t in bps if a < t < b} | {(a + b) / 2})
                m1 = rng.choice(cut)
                m2 = rng.choice([t for t in cut if t >= m1] + [b])
                ivs = [[a, m1], [m2, b]]
                if rng.random() < 0.3:
                    # three windows; the middle one may contain no event at all
                    inner = sorted({t for t in cut if m2 <= t <= b} | {m2, b})
                    m3 = rng.choice(inner)
                    m4 = rng.choice([t for t in inner if t >= m3])
                    ivs = [[a, m1], [m2, m3], [m4, b]]
                ivs = [iv for iv in ivs if iv[1] > iv[0]]
                if len(ivs) >= 2:
                    case["list_touching"] = any(ivs[q][1] == ivs[q + 1][0] for q in range(len(ivs) - 1))
                    if rng.random() < 0.4:
                        ivs = ivs[::-1] if rng.random() < 0.5 else rng.sample(ivs, len(ivs))     # any order
                        case["list_unordered"] = ivs != sorted(ivs)
                    case["interval"] = ivs
                    case["ikind"] = "list"
                else:
                    case["interval"] = [a, b]
                    case["ikind"] = kind
            else:
                a, b, kind = gen.pick_interval(rng, ts, te, bps)
                case["interval"] = [a, b]
                case["ikind"] = kind
            N = len(case["trains"])
            case["idx"] = common.pick_indices(rng, N) if (N >= 3 and rng.random() < 0.35) else None
            yield case

    def check(self, case, ctx):
        ps = ctx.ps
        common.list_classes(ctx, case)
        tr = case["trains"]
        ts, te = case["ts"], case["te"]
        N = len(tr)
        sts = ctx.trains(case)
        kwc = case["kw"]
        iv = case["interval"]
        ctx.count("interval_" + case["ikind"])
        if case.get("list_touching"):
            ctx.count("interval_list_touching")
        if case.get("list_unordered"):
            ctx.count("interval_list_not_in_time_order")
        is_list = iv is not None and isinstance(iv[0], (list, tuple))
        if is_list:
            ivs = [(float(u), float(v)) for u, v in iv]
            ivt = list(ivs)
        else:
            ivs = [(ts, te)] if iv is None else [(iv[0], iv[1])]
            ivt = None if iv is None else (iv[0], iv[1])
        total_len = sum(ref.fr(v) - ref.fr(u) for u, v in ivs)
        if N == 2:
            ctx.count("bivariate_form")
        idx = case.get("idx")
        if idx is not None:
            ctx.count("indices_selection")
            common.idx_classes(ctx, idx, N)

        def callm(fn, **kw):
            if N == 2:
                return ctx.call(fn, sts[0], sts[1], **kw)
            if idx is not None:
                return ctx.call(fn, sts, indices=common.vary_indices(ctx, idx), **kw)
            return ctx.call(fn, sts, **kw)
        ctx.sample({"trains": tr, "edges": [ts, te], "kw": kwc, "interval": iv, "indices": case.get("idx")})
        tol = 1e-9 * max(1.0, (te - ts) / float(total_len))
        kw_isi = {"MRTS": kwc["MRTS"]}
        kw_spk = {"MRTS": kwc["MRTS"], "RI": kwc["RI"]}
        kw_syn = {"MRTS": kwc["MRTS"], "max_tau": kwc["max_tau"]}
        # ---- ISI
        p = callm(ps.isi_profile, **kw_isi)
        d = callm(ps.isi_distance, interval=ivt, **kw_isi)
        want = sum(ref.integ_pwc(p.x, p.y, u, v) for u, v in ivs) / total_len
        ctx.close(d, want, "isi:distance!=avg(profile)", "isi_distance(interval=%r) vs exact average of isi_profile" % (iv,), rel=tol, absl=tol)
        pa = ctx.call(p.avrg, ivt, _name="PieceWiseConstFunc.avrg")
        ctx.close(pa, want, "isi:profile.avrg", "isi_profile.avrg(%r) vs exact average" % (iv,), rel=tol, absl=tol)
        # ---- SPIKE
        p = callm(ps.spike_profile, **kw_spk)
        d = callm(ps.spike_distance, interval=ivt, **kw_spk)
        want = sum(ref.integ_pwl(p.x, p.y1, p.y2, u, v) for u, v in ivs) / total_len
        ctx.close(d, want, "spike:distance!=avg(profile)", "spike_distance(interval=%r) vs exact average of spike_profile" % (iv,), rel=tol, absl=tol)
        pa = ctx.call(p.avrg, ivt, _name="PieceWiseLinFunc.avrg")
        ctx.close(pa, want, "spike:profile.avrg", "spike_profile.avrg(%r) vs exact average" % (iv,), rel=tol, absl=tol)
        # ---- SPIKE-Sync
        ctx.count("sync_checked")
        p = callm(ps.spike_sync_profile, **kw_syn)
        d = callm(ps.spike_sync, interval=ivt, **kw_syn)
        if iv is None:
            sy, sm = ref.discrete_sums(p.x, p.y, p.mp, None, None)
        else:
            parts = [ref.discrete_sums(p.x, p.y, p.mp, u, v) for u, v in ivs]
            sy, sm = sum(q[0] for q in parts), sum(q[1] for q in parts)
        if sm == 0:
            ctx.count("interval_without_events")
            ctx.expect(d == 1.0, "sync:no-event-interval", "spike_sync over an interval without events is %r, expected 1" % d)
        else:
            ctx.close(d, sy / sm, "sync:value!=sum(y)/sum(mp)", "spike_sync(interval=%r) vs summed profile values / multiplicities" % (iv,), rel=1e-12)
        pa = ctx.call(p.avrg, ivt, _name="DiscreteFunc.avrg")
        ctx.close(pa, (sy / sm) if sm else 1.0, "sync:profile.avrg", "spike_sync_profile.avrg(%r)" % (iv,), rel=1e-12)
        # ---- spike-train order (interval not supported by the distance function)
        if iv is None:
            p = callm(ps.spike_train_order_profile, **kw_syn)
            sy, sm = ref.discrete_sums(p.x, p.y, p.mp, None, None)
            if sm != 0:
                ctx.count("order_checked")
                d = callm(ps.spike_train_order, **kw_syn)
                ctx.close(d, sy / sm, "order:value!=sum(y)/sum(mp)", "spike_train_order vs summed profile values / multiplicities", rel=1e-12)
                if N == 2:
                    # (spike_train_order_multi ignores `normalize`; no property states the un-normalised multivariate
                    # value, so only the bivariate form is compared)
                    du = callm(ps.spike_train_order, normalize=False, **kw_syn)
                    ctx.close(du, sy, "order:unnormalised!=sum(y)", "spike_train_order(a,b,normalize=False) vs summed profile values", rel=1e-12)

PROP = Prop()
