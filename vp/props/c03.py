"""C03 SPIKE-Sync profile marks exactly the mutually coincident spikes."""
import numpy as np

from .. import ref, gen
from . import common
from .common import BaseProp


def single_impl(ps):
    """the per-spike coincidence routine the filter would resolve in this configuration"""
    try:
        from pyspike.cython.cython_profiles import coincidence_single_profile_cython as impl
    except ImportError:
        from pyspike.cython.python_backend import coincidence_single_python as impl
    return impl


class Prop(BaseProp):
    id = "C03"
    rule = ("pairs from W1 (exact ties between spike distance and window are frequent by construction) / W2 with "
            "near-tie injection / W3 (/W4) x max_tau in {None,0,>0} x MRTS regimes; spike_sync_profile (x, y, mp), "
            "the per-spike indicator used by the filter (both directions) and spike_sync are compared exactly with "
            "an O(n*m) pairwise evaluation of the coincidence definition in rational arithmetic. On non-dyadic input a "
            "pair whose distance and window agree to 2^-48 is rounding-ambiguous and only counted. distinct = "
            "interleaving words incl. MRTS/max_tau regime")
    budget = {"quick": 2800, "thorough": 600000}
    must_see = ["exact_tie_distance_equals_window", "simultaneous_event", "spike_on_t_start", "spike_on_t_end",
                "max_tau_none", "max_tau_zero", "max_tau_positive", "mrts_below_all_isis", "mrts_between_isis",
                "mrts_above_all_isis", "both_empty", "coincidence_found", "interp_regime_theta_below_min",
                "interp_regime_theta_between", "interp_regime_theta_above", "max_tau_python_int", "mrts_python_int", "history_probe"]
    must_contracts = ["inv:DiscreteFunc", "post:get_tau"]
    arm_files = [("pyspike/cython/python_backend.py", ["coincidence_python", "coincidence_single_python", "get_tau",
                                                       "Interpolate"])]
    assumptions = ["reference: pairwise definition in exact rational arithmetic (vp/ref.py coincidences_ref); the window "
                   "with max_tau>0 is min(window, max_tau) with missing neighbours counted as the recording length",
                   "values of the two edge entries are only required to be finite with 0<=y<=mp (the statement fixes "
                   "no value for them)"]

    def cases(self, rng, tier, config, k, K, n):
        return common.pair_stream(rng, tier, n, k, K, kw_fn=common.kw_sync)

    def check(self, case, ctx):
        ps = ctx.ps
        common.pair_classes(ctx, case)
        s1, s2 = case["trains"][0], case["trains"][1]
        ts, te = case["ts"], case["te"]
        st1, st2 = ctx.trains(case)
        kwc = case["kw"]
        m = kwc["MRTS"] or 0
        mt = kwc["max_tau"]
        kw = {"MRTS": m, "max_tau": mt}
        if not s1 and not s2:
            ctx.count("both_empty")
        c1, c2, pairs, ties, near = ref.coincidences_ref(s1, s2, ts, te, mt or 0, m, want_ties=True)
        if ties:
            ctx.count("exact_tie_distance_equals_window", ties)
        if pairs:
            ctx.count("coincidence_found", len(pairs))
        if set(s1) & set(s2):
            ctx.count("simultaneous_event")
        # interpolation regimes of the thresholded window
        if m:
            T = ref.fr(te) - ref.fr(ts)
            th = ref.fr(m) / 4
            for s in (s1, s2):
                for (P, Fw) in ref.half_isis(ref.frl(s), T):
                    lo, hi = min(P, Fw), max(P, Fw)
                    ctx.count("interp_regime_theta_below_min" if th < lo else
                              "interp_regime_theta_above" if th > hi else "interp_regime_theta_between")
        ambiguous = bool(near) and not case.get("dyadic")
        if ambiguous:
            ctx.count("ambiguous_ties_not_judged", len(near))
        ctx.expect(all(v <= 1 for v in c1) and all(v <= 1 for v in c2), "definition-not-one-to-one",
                   "pairwise definition gives a spike two partners: c1=%s c2=%s" % (c1, c2))
        prof = ctx.call(ps.spike_sync_profile, st1, st2, **kw)
        if not ctx.expect(isinstance(prof, ps.DiscreteFunc), "wrong-type", "spike_sync_profile returned %r" % type(prof)):
            return
        ctx.sample({"trains": case["trains"], "edges": [ts, te], "kw": kw, "x": prof.x, "y": prof.y, "mp": prof.mp})
        xr, yr, mpr, _, _, _ = ref.sync_profile_ref(s1, s2, ts, te, mt or 0, m)
        tag = "sync-profile" + (":max_tau>0" if mt else "")
        ok = common.same_axis(ctx, prof.x, xr, "sync-event-times", "spike_sync_profile.x")
        if ok:
            ok = common.arr_exact(ctx, prof.mp[1:-1], mpr, "sync-multiplicity", "spike_sync_profile.mp (interior)")
        if ok and not ambiguous:
            common.arr_exact(ctx, prof.y[1:-1], yr, tag, "spike_sync_profile.y (interior)")
        if ok:
            for e in (0, -1):
                ctx.expect(common.finite([prof.y[e], prof.mp[e]]) and 0 <= prof.y[e] <= prof.mp[e] and prof.mp[e] >= 1,
                           "sync-edge-entry", "edge entry %d: y=%r mp=%r" % (e, prof.y[e], prof.mp[e]))
        if ctx.evals % 3 == 0 and len(s1) + len(s2) <= 40:
            # state must not leak between calls (see C01.history_probes)
            ctx.count("history_probe")
            prof.y[:] = -7.0
            prof.mp *= 3.0
            again = ctx.call(ps.spike_sync_profile, st1, st2, _repeat=False, **kw)
            if common.same_axis(ctx, again.x, xr, "sync:state-leak:returned-object-shared", "spike_sync_profile after the caller modified the previously returned profile"):
                common.arr_exact(ctx, again.mp[1:-1], mpr, "sync:state-leak:returned-object-shared", "mp after the caller modified the previously returned profile")
                if not ambiguous:
                    common.arr_exact(ctx, again.y[1:-1], yr, "sync:state-leak:returned-object-shared", "y after the caller modified the previously returned profile")
            Tw = te - ts
            ts2, te2 = ts - Tw / 4, te + Tw / 2
            w1 = ps.SpikeTrain(np.array(s1, dtype=float), [ts2, te2])
            w2 = ps.SpikeTrain(np.array(s2, dtype=float), [ts2, te2])
            nearw = ref.coincidences_ref(s1, s2, ts2, te2, mt or 0, m, want_ties=True)[4]
            wide = ctx.call(ps.spike_sync_profile, w1, w2, _repeat=False, **kw)
            xw, yw, mpw, _, _, _ = ref.sync_profile_ref(s1, s2, ts2, te2, mt or 0, m)
            if common.same_axis(ctx, wide.x, xw, "sync:state-leak:same-spikes-other-interval", "spike_sync_profile of the same spike times on the wider interval"):
                if not (nearw and not case.get("dyadic")):
                    common.arr_exact(ctx, wide.y[1:-1], yw, "sync:state-leak:same-spikes-other-interval", "y on the wider interval")
        # per-spike indicator used by the filter, both directions
        impl = single_impl(ps)
        a1 = np.array(s1, dtype=float)
        a2 = np.array(s2, dtype=float)
        i1 = ctx.call(impl, a1, a2, ts, te, float(mt or 0.0), float(m), _name="coincidence_single(1|2)")
        i2 = ctx.call(impl, a2, a1, ts, te, float(mt or 0.0), float(m), _name="coincidence_single(2|1)")
        if not ambiguous:
            common.arr_exact(ctx, i1, c1, "single-indicator" + (":max_tau>0" if mt else ""), "coincidence indicator of train 1")
            common.arr_exact(ctx, i2, c2, "single-indicator" + (":max_tau>0" if mt else ""), "coincidence indicator of train 2")
        ctx.expect(float(np.sum(np.asarray(i1))) == float(np.sum(np.asarray(i2))), "sync-not-mutual",
                   "train 1 contributes %r coincident spikes, train 2 %r" % (float(np.sum(np.asarray(i1))), float(np.sum(np.asarray(i2)))))
        v = ctx.call(ps.spike_sync, st1, st2, **kw)
        tot = sum(mpr)
        want = (sum(yr) / tot) if tot else 1.0
        if not ambiguous:
            ctx.close(v, want, "sync-value" + (":max_tau>0" if mt else ""), "spike_sync vs pairwise definition")


PROP = Prop()
