"""C16 max_tau is an upper bound on the coincidence window."""
import numpy as np

from .. import ref, gen
from . import common
from .common import BaseProp


def kw_c16(rng, case):
    T = case["te"] - case["ts"]
    st = case["step"]
    if case["dyadic"]:
        ch = [st / 2, st, 1.5 * st, 2 * st, 3 * st, T / 4, T / 2, 0.75 * T, T, 2 * T]
        m1, m2 = sorted([rng.choice(ch), rng.choice(ch)])
        mr = rng.choice([0, 0, st, 4 * st, 8 * st, T / 2, T, 4 * T, 10 * T])
    else:
        m1, m2 = sorted([T * 10 ** rng.uniform(-4, 0.3), T * 10 ** rng.uniform(-4, 0.3)])
        mr = rng.choice([0, 0, T * 10 ** rng.uniform(-3, 1)])
    return {"max_tau": m1, "max_tau2": m2, "MRTS": mr}


def near(t, other, m):
    return any(abs(t - u) < m for u in other)


class Prop(BaseProp):
    id = "C16"
    rule = ("lists of 2..5 trains biased to dense trains (every spike has neighbours on both sides - the case the only "
            "existing assertion cannot reach) x 0<max_tau1<=max_tau2 from half a grid step to 2T x MRTS (incl. "
            "MRTS>2*max_tau) x intervals; necessary condition read off the outputs: a spike counted as coincident by "
            "spike_sync_profile / spike_train_order_profile / directionality values / spike_directionality / "
            "filter_by_spike_sync / spike_sync(interval) must have a spike of another train closer than max_tau; "
            "None and 0 give identical results; enlarging max_tau never removes a coincidence; plus the hook-level "
            "contract get_tau <= limit/2 on every window evaluation. distinct = (interleaving word, max_tau regime)")
    budget = {"quick": 800, "thorough": 60000}
    must_see = ["candidate_window_exceeds_max_tau", "none_vs_zero_checked", "monotone_checked", "filter_checked",
                "interval_checked", "mrts_gt_2max_tau", "multivariate_checked", "tie_distance_equals_max_tau", "src_W14", "interval_vs_profile_checked"]
    must_contracts = ["post:get_tau"]
    arm_files = [("pyspike/cython/python_backend.py", ["get_tau", "Interpolate", "coincidence_python", "coincidence_single_python"]),
                 ("pyspike/cython/directionality_python_backend.py", None)]
    assumptions = ["only the necessary condition of the statement is asserted here (no coincidence at distance >= max_tau); "
                   "the exact window is C03's job"]

    def cases(self, rng, tier, config, k, K, n):
        for idx in range(n):
            r = rng.random()
            if r < 0.55:
                case = gen.dyadic_list(rng, tier, 2, 5, nmax=rng.choice([8, 12, 16]))
                case["src"] = "W1dense"
                case["kw"] = kw_c16(rng, case)
            elif r < 0.70:
                case = gen.hostile_list(rng, tier, 2, 4)
                case["src"] = "W2"
                case["kw"] = kw_c16(rng, case)
            else:
                case = gen.window_scale_list(rng, rng.choice([2, 2, 3]))
                case["src"] = "W14"
                m = case["m"]
                m1 = m * rng.choice([0.5, 1.0, 1.0, 1.0, 1.5])
                case["kw"] = {"max_tau": m1, "max_tau2": m1 * rng.choice([1.0, 2.0, 3.0]), "MRTS": rng.choice([0, 0, m, 6 * m])}
            bps = sorted({t for s in case["trains"] for t in s})
            a, b, kd = gen.pick_interval(rng, case["ts"], case["te"], bps)
            case["interval"] = [a, b]
            yield case

    def check(self, case, ctx):
        ps = ctx.ps
        common.list_classes(ctx, case)
        tr = case["trains"]
        ts, te = case["ts"], case["te"]
        N = len(tr)
        sts = ctx.trains(case)
        m1, m2, mr = case["kw"]["max_tau"], case["kw"]["max_tau2"], case["kw"]["MRTS"]
        if mr > 2 * m1:
            ctx.count("mrts_gt_2max_tau")
        ctx.sample({"trains": tr, "edges": [ts, te], "kw": case["kw"], "interval": case["interval"]})
        T = ref.fr(te) - ref.fr(ts)
        # class counter: candidate pairs whose ISI-based (uncapped) window exceeds max_tau
        for i in range(N):
            for j in range(i + 1, N):
                s1, s2 = ref.frl(tr[i]), ref.frl(tr[j])
                H1, H2 = ref.half_isis(s1, T), ref.half_isis(s2, T)
                for p, a in enumerate(s1):
                    for q, b in enumerate(s2):
                        d = abs(a - b)
                        if d == ref.fr(m1):
                            ctx.count("tie_distance_equals_max_tau")
                        if d >= ref.fr(m1) and d < ref.tau_from(H1[p], H2[q], a, b, ref.F(0), ref.fr(mr) / 4):
                            ctx.count("candidate_window_exceeds_max_tau")
        for (m, tag) in ((m1, "m1"), (m2, "m2")):
            kw = {"max_tau": m, "MRTS": mr}
            # ---- bivariate layer, all pairs
            for i in range(N):
                for j in range(i + 1, N):
                    a, b = tr[i], tr[j]
                    p = ctx.call(ps.spike_sync_profile, sts[i], sts[j], **kw)
                    for t, y, mp in zip(p.x[1:-1].tolist(), p.y[1:-1].tolist(), p.mp[1:-1].tolist()):
                        if y > 0 and mp == 1:
                            other = b if t in a else a
                            ctx.expect(near(t, other, m), "coincidence-beyond-max_tau:sync-profile",
                                       "spike at %r marked coincident with max_tau=%r although the other train has no spike closer than that (%s vs %s)" % (t, m, a, b))
                    o = ctx.call(ps.spike_train_order_profile, sts[i], sts[j], **kw)
                    for t, y, mp in zip(o.x[1:-1].tolist(), o.y[1:-1].tolist(), o.mp[1:-1].tolist()):
                        if y != 0:
                            other = b if t in a else a
                            ctx.expect(near(t, other, m), "coincidence-beyond-max_tau:order-profile",
                                       "order profile marks spike at %r with max_tau=%r, no partner closer than that" % (t, m))
                    dv = ctx.call(ps.spike_directionality_values, sts[i], sts[j], **kw)
                    for own, other, vals in ((a, b, dv[0]), (b, a, dv[1])):
                        for t, v in zip(own, np.asarray(vals).tolist()):
                            if v != 0:
                                ctx.expect(near(t, other, m), "coincidence-beyond-max_tau:directionality-values",
                                           "directionality value %r for spike at %r with max_tau=%r, no partner closer than that" % (v, t, m))
                    D = ctx.call(ps.spike_directionality, sts[i], sts[j], normalize=False, **kw)
                    adm = sum(1 for t in a if near(t, b, m))
                    ctx.expect(abs(D) <= adm, "coincidence-beyond-max_tau:spike_directionality", "|D|=%r exceeds the %d spikes of A that have a partner closer than max_tau=%r" % (D, adm, m))
            # ---- interval form (first pair)
            ctx.count("interval_checked")
            lo, hi = case["interval"]
            a, b = tr[0], tr[1]
            v = ctx.call(ps.spike_sync, sts[0], sts[1], interval=(lo, hi), **kw)
            inside = [(t, o) for s, o in ((a, b), (b, a)) for t in s if lo < t < hi]
            if inside:
                adm = sum(1 for t, o in inside if near(t, o, m))
                ctx.expect(v <= adm / len(inside) + 1e-12, "coincidence-beyond-max_tau:spike_sync(interval)",
                           "spike_sync(interval=%r, max_tau=%r)=%r exceeds admissible fraction %d/%d" % ((lo, hi), m, v, adm, len(inside)))
            # the interval form must describe the same coincidences as the profile (a spike's window depends on its
            # neighbours even when those lie outside the averaging interval)
            ctx.count("interval_vs_profile_checked")
            pr = ctx.call(ps.spike_sync_profile, sts[0], sts[1], **kw)
            sy, sm = ref.discrete_sums(pr.x, pr.y, pr.mp, lo, hi)
            vi = ctx.call(ps.spike_sync, sts[0], sts[1], interval=(lo, hi), **kw)
            ctx.close(vi, float(sy / sm) if sm else 1.0, "interval-form-disagrees-with-profile", "spike_sync(interval=%r, max_tau=%r) vs the profile restricted to the interval" % ((lo, hi), m), rel=1e-12)
            if N >= 3:
                prm = ctx.call(ps.spike_sync_profile, sts, **kw)
                sy, sm = ref.discrete_sums(prm.x, prm.y, prm.mp, lo, hi)
                vm = ctx.call(ps.spike_sync, sts, interval=(lo, hi), **kw)
                ctx.close(vm, float(sy / sm) if sm else 1.0, "interval-form-disagrees-with-profile", "multivariate spike_sync(interval=%r, max_tau=%r) vs the profile restricted to the interval" % ((lo, hi), m), rel=1e-12)
            v = ctx.call(ps.spike_sync, sts[0], sts[1], **kw)
            alls = [(t, o) for s, o in ((a, b), (b, a)) for t in s]
            if alls:
                adm = sum(1 for t, o in alls if near(t, o, m))
                ctx.expect(v <= adm / len(alls) + 1e-12, "coincidence-beyond-max_tau:spike_sync", "spike_sync(max_tau=%r)=%r exceeds admissible fraction %d/%d" % (m, v, adm, len(alls)))
            # ---- multivariate profile and filter
            if N >= 3:
                ctx.count("multivariate_checked")
                p = ctx.call(ps.spike_sync_profile, sts, **kw)
                for t, y in zip(p.x[1:-1].tolist(), p.y[1:-1].tolist()):
                    bound = sum(sum(1 for o in range(N) if o != n and near(t, tr[o], m)) for n in range(N) if t in tr[n])
                    ctx.expect(y <= bound, "coincidence-beyond-max_tau:multivariate-sync-profile", "multivariate profile value %r at %r exceeds %d admissible partners (max_tau=%r)" % (y, t, bound, m))
            ctx.count("filter_checked")
            kept = ctx.call(ps.filter_by_spike_sync, sts, 0.0, **kw)
            for n, st in enumerate(kept):
                for t in common.tl(st.spikes):
                    ctx.expect(any(near(t, tr[o], m) for o in range(N) if o != n), "coincidence-beyond-max_tau:filter",
                               "filter(threshold 0, max_tau=%r) keeps spike %r of train %d that has no partner closer than max_tau" % (m, t, n))
        # ---- None and 0 are identical
        ctx.count("none_vs_zero_checked")
        for name in ("spike_sync_profile", "spike_sync", "spike_train_order_profile", "spike_directionality_values", "spike_sync_matrix", "spike_directionality_matrix"):
            fn = getattr(ps, name)
            r0 = ctx.call(fn, sts, max_tau=0, MRTS=mr)
            rn = ctx.call(fn, sts, max_tau=None, MRTS=mr)
            ro = ctx.call(fn, sts, MRTS=mr)
            d = common.result_equal(ps, r0, rn, 0) or common.result_equal(ps, ro, rn, 0)
            ctx.expect(d is None, "max_tau-none!=zero:" + name, "%s: max_tau=None / 0 / omitted differ: %s" % (name, d))
        # the same through the bivariate forms, with numeric and automatic MRTS
        for mrts in (mr, "auto"):
            for name, extra in (("spike_directionality", {"normalize": False}), ("spike_sync", {}), ("spike_train_order_profile", {}),
                                ("spike_sync_profile", {}), ("spike_directionality_values", {})):
                fn = getattr(ps, name)
                r0 = ctx.call(fn, sts[0], sts[1], max_tau=0, MRTS=mrts, **extra)
                rz = ctx.call(fn, sts[0], sts[1], max_tau=0.0, MRTS=mrts, **extra)
                rn = ctx.call(fn, sts[0], sts[1], max_tau=None, MRTS=mrts, **extra)
                ro = ctx.call(fn, sts[0], sts[1], MRTS=mrts, **extra)
                d = common.result_equal(ps, r0, rn, 0) or common.result_equal(ps, ro, rn, 0) or common.result_equal(ps, rz, rn, 0)
                ctx.expect(d is None, "max_tau-none!=zero:bi:" + name, "%s(a,b,MRTS=%r): max_tau=None / 0 / 0.0 / omitted differ: %s" % (name, mrts, d))
        r0 = ctx.call(ps.filter_by_spike_sync, sts, 0.5, max_tau=0, MRTS=mr)
        rn = ctx.call(ps.filter_by_spike_sync, sts, 0.5, max_tau=None, MRTS=mr)
        d = common.result_equal(ps, r0, rn, 0)
        ctx.expect(d is None, "max_tau-none!=zero:filter_by_spike_sync", "filter: %s" % d)
        # ---- enlarging max_tau never removes a coincidence
        ctx.count("monotone_checked")
        ambiguous = False
        if not case.get("dyadic"):
            for i in range(N):
                for j in range(i + 1, N):
                    for mm in (m1, m2):
                        if ref.coincidences_ref(tr[i], tr[j], ts, te, mm, mr, want_ties=True)[4]:
                            ambiguous = True
        if not ambiguous:
            p1 = ctx.call(ps.spike_sync_profile, sts, max_tau=m1, MRTS=mr)
            p2 = ctx.call(ps.spike_sync_profile, sts, max_tau=m2, MRTS=mr)
            if ctx.expect(np.array_equal(p1.x, p2.x), "max_tau-changes-events", "event times depend on max_tau"):
                ctx.expect(bool(np.all(p2.y[1:-1] >= p1.y[1:-1])), "larger-max_tau-removes-coincidence",
                           "max_tau %r -> %r removes a coincidence: %s -> %s" % (m1, m2, common.short(p1.y.tolist()), common.short(p2.y.tolist())))
            pu = ctx.call(ps.spike_sync_profile, sts, max_tau=None, MRTS=mr)
            ctx.expect(bool(np.all(pu.y[1:-1] >= p2.y[1:-1])), "larger-max_tau-removes-coincidence", "unbounded window has fewer coincidences than max_tau=%r" % m2)


PROP = Prop()
