"""C15 MRTS only de-emphasises small time scales; 'auto' is the pooled ISI threshold."""
import math
from fractions import Fraction as F

import numpy as np

from .. import ref, gen
from . import common
from .common import BaseProp


def kw_c15(rng, case):
    T = case["te"] - case["ts"]
    if case["dyadic"]:
        ch = [v for v in gen.mrts_choices(T, case["step"])]
        m1, m2 = sorted([rng.choice(ch), rng.choice(ch)])
        mt = rng.choice(gen.maxtau_choices(T, case["step"]))
    else:
        m1, m2 = sorted([rng.choice([0, T * 10 ** rng.uniform(-6, 1)]), T * 10 ** rng.uniform(-6, 1)])
        mt = rng.choice([None, None, 0, T * 10 ** rng.uniform(-5, 0.5)])
    # the same two thresholds in the form the user passes them (python int, numpy scalar, 0-d array): same numbers
    return {"MRTS": m1, "MRTS2": m2, "max_tau": mt, "RI": rng.random() < 0.4,
            "MRTS_u": common.as_user_number(rng, float(m1)), "MRTS2_u": common.as_user_number(rng, float(m2))}


class Prop(BaseProp):
    id = "C15"
    rule = ("lists of 2..6 trains (W5, incl. one-spike and empty trains) x ordered pairs 0<=MRTS1<=MRTS2 x RI x max_tau: "
            "MRTS=0 vs keyword omitted (exact), pointwise monotonicity of ISI/SPIKE profile values and of Sync "
            "coincidences when MRTS is raised, exact no-op for an MRTS below every pooled ISI length, MRTS='auto' vs the "
            "explicitly passed default_thresh through bivariate, multivariate, matrix, profile, order, directionality and "
            "filter entry points, and default_thresh vs the exact RMS of the pooled ISI lengths. distinct = "
            "(interleaving word, MRTS regime pair)")
    budget = {"quick": 500, "thorough": 22000}
    must_see = ["mrts_pair_distinct", "noop_checked", "auto_bi", "auto_multi", "auto_matrix", "auto_filter", "auto_order",
                "auto_directionality", "thresh_one_spike_train", "thresh_empty_train", "thresh_edge_spike", "N>=3",
                "monotone_strict_decrease_seen", "sync_gain_seen"]
    arm_files = [("pyspike/isi_lengths.py", None), ("pyspike/generic.py", ["resolve_keywords"])]
    assumptions = ["open corner: a one-spike train whose spike sits on an edge may or may not pool a zero-length interval "
                   "(both RMS values accepted, counted as thresh_open_corner)",
                   "'auto' pools the trains a call sees: the pair in bivariate calls, the whole list in list calls"]

    def cases(self, rng, tier, config, k, K, n):
        for case in common.list_stream(rng, tier, n, k, K, kw_fn=kw_c15, nmin=2, nmax_trains=5 if tier == "quick" else 6):
            case["thr"] = rng.choice([0.0, 0.25, 0.5, 0.75])
            yield case

    def check(self, case, ctx):
        ps = ctx.ps
        from pyspike.isi_lengths import default_thresh
        common.list_classes(ctx, case)
        tr = case["trains"]
        ts, te = case["ts"], case["te"]
        N = len(tr)
        sts = ctx.trains(case)
        a, b = sts[0], sts[1]
        kwc = case["kw"]
        m1, m2, mt, RI = kwc["MRTS"], kwc["MRTS2"], kwc["max_tau"], kwc["RI"]
        u1, u2 = kwc.get("MRTS_u", m1), kwc.get("MRTS2_u", m2)
        if not (isinstance(u1, float) and isinstance(u2, float)) or isinstance(u1, np.floating) or isinstance(u2, np.floating):
            ctx.count("mrts_passed_as_int_or_numpy_object")
        ctx.sample({"trains": tr, "edges": [ts, te], "kw": kwc})
        dy = bool(case.get("dyadic"))

        def eq(r1, r2, what, label, tol=1e-12):
            d = common.result_equal(ps, r1, r2, tol)
            ctx.expect(d is None, what, "%s: %s" % (label, d))

        lst = sts if N > 2 else [a, b]
        # ---- 1. MRTS=0 equals keyword omitted (exact) - through every public entry point.  (Cases follow each other in one
        # process, and the previous case ended with calls that passed MRTS>0 / 'auto': a default that leaks from an earlier
        # call into a later call which omits the keyword shows up here.)
        for name, form, kws, takes_iv in common.ENTRY_POINTS:
            fn = getattr(ps, name)
            extra = {}
            if "RI" in kws:
                extra["RI"] = RI
            if "max_tau" in kws:
                extra["max_tau"] = mt
            if name == "spike_directionality_matrix":
                extra["normalize"] = False
            if name in ("spike_train_order", "spike_train_order_bi", "spike_train_order_multi") and sum(len(s_) for s_ in tr) == 0:
                continue
            forms = []
            if form in ("bi", "any"):
                forms.append((a, b))
            if form in ("list", "any"):
                forms.append((sts,))
            for args0 in forms:
                r_omit = ctx.call(fn, *args0, **extra)
                r_zero = ctx.call(fn, *args0, MRTS=0, **extra)
                eq(r_zero, r_omit, "mrts0!=omitted:" + name, "%s with MRTS=0 vs keyword omitted" % name, 0)
        # ---- 2. monotonicity in MRTS
        if m2 > m1:
            ctx.count("mrts_pair_distinct")
        args = (lst,) if N > 2 else (a, b)
        p1 = ctx.call(ps.isi_profile, *args, MRTS=u1)
        p2 = ctx.call(ps.isi_profile, *args, MRTS=u2)
        if ctx.expect(np.array_equal(p1.x, p2.x), "mrts-changes-breakpoints:isi", "breakpoints depend on MRTS"):
            ctx.expect(bool(np.all(p2.y <= p1.y + 1e-12)), "mrts-increases:isi-profile", "raising MRTS %r->%r increases an ISI value: %s -> %s"
                       % (m1, m2, common.short(p1.y.tolist()), common.short(p2.y.tolist())))
            if np.any(p2.y < p1.y - 1e-9):
                ctx.count("monotone_strict_decrease_seen")
        p1 = ctx.call(ps.spike_profile, *args, MRTS=u1, RI=RI)
        p2 = ctx.call(ps.spike_profile, *args, MRTS=u2, RI=RI)
        if ctx.expect(np.array_equal(p1.x, p2.x), "mrts-changes-breakpoints:spike", "breakpoints depend on MRTS"):
            ctx.expect(bool(np.all(p2.y1 <= p1.y1 + 1e-12) and np.all(p2.y2 <= p1.y2 + 1e-12)), "mrts-increases:spike-profile",
                       "raising MRTS %r->%r increases a SPIKE value (RI=%r): y1 %s -> %s" % (m1, m2, RI, common.short(p1.y1.tolist()), common.short(p2.y1.tolist())))
        for nm, fn, extra in (("isi_distance", ps.isi_distance, {}), ("spike_distance", ps.spike_distance, {"RI": RI})):
            d1 = ctx.call(fn, *args, MRTS=u1, **extra)
            d2 = ctx.call(fn, *args, MRTS=u2, **extra)
            ctx.expect(d2 <= d1 + 1e-12, "mrts-increases:" + nm, "%s rises from %r to %r when MRTS goes %r->%r" % (nm, d1, d2, m1, m2))
        s1 = ctx.call(ps.spike_sync_profile, *args, MRTS=u1, max_tau=mt)
        s2 = ctx.call(ps.spike_sync_profile, *args, MRTS=u2, max_tau=mt)
        if ctx.expect(np.array_equal(s1.x, s2.x) and np.array_equal(s1.mp[1:-1], s2.mp[1:-1]), "mrts-changes-events:sync", "event times / multiplicities depend on MRTS"):
            near = False
            if not dy:
                # rounding-ambiguous ties on non-dyadic input are not judged
                for i in range(N):
                    for j in range(i + 1, N):
                        for mm in (m1, m2):
                            if ref.coincidences_ref(tr[i], tr[j], ts, te, mt or 0, mm, want_ties=True)[4]:
                                near = True
            if near:
                ctx.count("ambiguous_ties_not_judged")
            else:
                ctx.expect(bool(np.all(s2.y[1:-1] >= s1.y[1:-1])), "mrts-removes-coincidence:sync-profile",
                           "raising MRTS %r->%r removes a coincidence: %s -> %s" % (m1, m2, common.short(s1.y.tolist()), common.short(s2.y.tolist())))
                if np.any(s2.y[1:-1] > s1.y[1:-1]):
                    ctx.count("sync_gain_seen")

        # ---- 3. MRTS below every ISI involved changes nothing (exact)
        pool = []
        for s in tr:
            pool += [v for v in ref.isi_pool_ref(s, ts, te)[0] if v > 0]
        # edge distances of one-spike trains are pooled already; also stay below every edge distance
        for s in tr:
            for t in s:
                for e in (ts, te):
                    if t != e:
                        pool.append(abs(ref.fr(t) - ref.fr(e)))
        small = float(min(pool)) * 0.875 if pool else (te - ts) / 2      # just below every ISI / edge distance involved
        if small > 0:
            ctx.count("noop_checked")
            for name, extra in (("isi_profile", {}), ("spike_profile", {"RI": RI}), ("spike_sync_profile", {"max_tau": mt}),
                                ("spike_train_order_profile", {"max_tau": mt}), ("isi_distance", {}), ("spike_distance", {"RI": RI}),
                                ("spike_sync", {"max_tau": mt}), ("spike_directionality_values", {"max_tau": mt}),
                                ("spike_directionality_matrix", {"max_tau": mt, "normalize": False})):
                fn = getattr(ps, name)
                if "matrix" in name and N == 2:
                    continue
                eq(ctx.call(fn, *args, MRTS=small, **extra), ctx.call(fn, *args, MRTS=0, **extra), "small-mrts-changes-result:" + name,
                   "%s with MRTS=%r (below every ISI) vs MRTS=0" % (name, small), 0)

        # ---- 4. 'auto' equals the explicitly passed automatic threshold
        from pyspike.spikes import reconcile_spike_trains
        th_pair = ctx.call(default_thresh, [a, b], _name="default_thresh")
        th_all = ctx.call(default_thresh, sts, _name="default_thresh")
        ctx.count("auto_bi")
        for name, extra in (("isi_profile", {}), ("isi_distance", {}), ("spike_profile", {"RI": RI}), ("spike_distance", {"RI": RI}),
                            ("spike_sync_profile", {"max_tau": mt}), ("spike_sync", {"max_tau": mt}),
                            ("spike_train_order_profile", {"max_tau": mt}), ("spike_directionality_values", {"max_tau": mt})):
            fn = getattr(ps, name)
            eq(ctx.call(fn, a, b, MRTS="auto", **extra), ctx.call(fn, a, b, MRTS=th_pair, **extra), "auto!=explicit:bi:" + name,
               "%s(a,b,MRTS='auto') vs MRTS=default_thresh([a,b])=%r" % (name, th_pair))
        ctx.count("auto_directionality")
        eq(ctx.call(ps.spike_directionality, a, b, normalize=False, MRTS="auto", max_tau=mt),
           ctx.call(ps.spike_directionality, a, b, normalize=False, MRTS=th_pair, max_tau=mt), "auto!=explicit:bi:spike_directionality", "spike_directionality auto vs explicit")
        if len(tr[0]) + len(tr[1]) > 0:
            ctx.count("auto_order")
            eq(ctx.call(ps.spike_train_order, a, b, MRTS="auto", max_tau=mt), ctx.call(ps.spike_train_order, a, b, MRTS=th_pair, max_tau=mt),
               "auto!=explicit:bi:spike_train_order", "spike_train_order(a,b) auto vs explicit")
        # (every other case the 'auto' call also switches reconciliation off: the trains are valid, so that is a no-op
        # by C13, and the threshold must still be resolved on the whole list)
        rc = {"Reconcile": False} if ctx.evals % 2 else {}
        if rc:
            ctx.count("auto_with_reconcile_off")
        if N > 2:
            ctx.count("auto_multi")
            for name, extra in (("isi_profile", {}), ("isi_distance", {}), ("spike_profile", {"RI": RI}), ("spike_distance", {"RI": RI}),
                                ("spike_sync_profile", {"max_tau": mt}), ("spike_sync", {"max_tau": mt}),
                                ("spike_train_order_profile", {"max_tau": mt}), ("spike_directionality_values", {"max_tau": mt})):
                fn = getattr(ps, name)
                eq(ctx.call(fn, sts, MRTS="auto", **extra, **rc), ctx.call(fn, sts, MRTS=th_all, **extra), "auto!=explicit:multi:" + name,
                   "%s(list,MRTS='auto') vs MRTS=default_thresh(list)=%r" % (name, th_all))
            if sum(len(s) for s in tr) > 0:
                eq(ctx.call(ps.spike_train_order, sts, MRTS="auto", max_tau=mt), ctx.call(ps.spike_train_order, sts, MRTS=th_all, max_tau=mt),
                   "auto!=explicit:multi:spike_train_order", "spike_train_order(list) auto vs explicit")
        ctx.count("auto_matrix")
        for name, extra in (("isi_distance_matrix", {}), ("spike_distance_matrix", {"RI": RI}), ("spike_sync_matrix", {"max_tau": mt}),
                            ("spike_directionality_matrix", {"max_tau": mt, "normalize": False})):
            fn = getattr(ps, name)
            eq(ctx.call(fn, sts, MRTS="auto", **extra, **rc), ctx.call(fn, sts, MRTS=th_all, **extra), "auto!=explicit:matrix:" + name,
               "%s(list,MRTS='auto') vs MRTS=default_thresh(list)=%r" % (name, th_all))
        ctx.count("auto_filter")
        eq(ctx.call(ps.filter_by_spike_sync, sts, case["thr"], MRTS="auto", max_tau=mt, **rc), ctx.call(ps.filter_by_spike_sync, sts, case["thr"], MRTS=th_all, max_tau=mt),
           "auto!=explicit:filter_by_spike_sync", "filter auto vs explicit")

        # ---- 5. the threshold is the RMS of the pooled ISI lengths
        for label, group, th in (("pair", tr[:2], th_pair), ("list", tr, th_all)):
            sq, zeros = ref.default_thresh_sq_ref(group, ts, te)
            if zeros:
                ctx.count("thresh_open_corner")
            if any(len(s) == 1 for s in group):
                ctx.count("thresh_one_spike_train")
            if any(len(s) == 0 for s in group):
                ctx.count("thresh_empty_train")
            if any(s and (s[0] == ts or s[-1] == te) for s in group):
                ctx.count("thresh_edge_spike")
            ok = any(abs(float(th) - math.sqrt(float(v))) <= 1e-9 * max(1.0, math.sqrt(float(v))) for v in sq)
            cls = "+".join(sorted({("both-edges-2" if (len(s) == 2 and s[0] == ts and s[-1] == te) else "other") for s in group}))
            ctx.expect(ok, "default_thresh!=pooled-RMS:" + cls, "default_thresh(%s)=%r, RMS of pooled ISI lengths %s" % (label, float(th), [math.sqrt(float(v)) for v in sq]))


PROP = Prop()
