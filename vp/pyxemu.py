"""Execute the .pyx kernels' source text under CPython ("emulated-compiled" configuration).

A purely syntactic .pyx -> .py transliteration plus C-semantics shims:
  * typed signatures get the coercions Cython would perform (double -> float(), int -> int(),
    double[:] -> must be a float64 ndarray of the right rank, else TypeError/ValueError);
  * every '/' and '/=' becomes _cdiv (IEEE result instead of ZeroDivisionError: cdivision=True);
  * libc fabs/fmax/fmin with C NaN semantics;
  * every double[:] is a bounds-checking proxy (MV): with boundscheck=False/wraparound=False an index outside
    0 <= i < len is undefined behaviour in C; here it raises EmuOutOfBounds.  This is the sanitizer-shaped part.
The resulting modules are put into sys.modules under the extension names so the real front ends take
their compiled-backend branches.

This is real execution of the .pyx *algorithms*, not of Cython-generated C (see DESIGN.md section 5).
A construct the transliterator does not know raises EmuUnsupported -> the check ends INCONCLUSIVE.
"""
import ast
import math
import os
import re
import sys
import types

import numpy as np


class EmuOutOfBounds(IndexError):
    pass


class EmuUnsupported(Exception):
    pass


STATS = {"index_ops": 0, "oob": 0}


class MV(object):
    """bounds-checked stand-in for a typed memoryview"""
    __slots__ = ("a",)

    def __init__(self, a):
        if isinstance(a, MV):
            a = a.a
        if not isinstance(a, np.ndarray):
            raise TypeError("a bytes-like object is required, not %r" % type(a).__name__)
        self.a = a

    def __len__(self):
        return self.a.shape[0]

    @property
    def shape(self):
        return self.a.shape

    def _chk(self, i, n):
        if not (0 <= i < n):
            STATS["oob"] += 1
            raise EmuOutOfBounds("index %d out of bounds for axis of length %d "
                                 "(undefined behaviour under boundscheck=False, wraparound=False)" % (i, n))

    def __getitem__(self, k):
        if isinstance(k, slice):
            return MV(self.a[k])
        if isinstance(k, tuple):
            for d, i in enumerate(k):
                self._chk(int(i), self.a.shape[d])
            STATS["index_ops"] += 1
            return float(self.a[k])
        STATS["index_ops"] += 1
        i = int(k)
        self._chk(i, self.a.shape[0])
        return float(self.a[i])

    def __setitem__(self, k, v):
        if isinstance(k, slice):
            self.a[k] = np.asarray(v)
            return
        if isinstance(k, tuple):
            for d, i in enumerate(k):
                self._chk(int(i), self.a.shape[d])
            STATS["index_ops"] += 1
            self.a[k] = v
            return
        STATS["index_ops"] += 1
        i = int(k)
        self._chk(i, self.a.shape[0])
        self.a[i] = v

    def __array__(self, dtype=None, copy=None):
        return self.a if dtype is None else self.a.astype(dtype)


def _mv_arg(x, ndim=1, dtype=np.float64):
    if isinstance(x, MV):
        return x
    if not isinstance(x, np.ndarray):
        raise TypeError("a bytes-like object is required, not %r" % type(x).__name__)
    if x.dtype != dtype:
        raise ValueError("Buffer dtype mismatch, expected %r but got %r" % (np.dtype(dtype).name, x.dtype.name))
    if x.ndim != ndim:
        raise ValueError("Buffer has wrong number of dimensions (expected %d, got %d)" % (ndim, x.ndim))
    return MV(x)


def _cdiv(a, b):
    try:
        return a / b
    except ZeroDivisionError:
        a = float(a)
        if a != a or a == 0:
            return float("nan")
        return math.copysign(float("inf"), a) * math.copysign(1.0, float(b))


def fabs(x):
    return abs(x)


def fmax(a, b):
    if a != a:
        return b
    if b != b:
        return a
    return a if a >= b else b


def fmin(a, b):
    if a != a:
        return b
    if b != b:
        return a
    return a if a <= b else b


CTYPE = (r'(?:double\[:(?:,\s*:)*\]|long\[:(?:,\s*:)*\]|int\[:(?:,\s*:)*\]|np\.ndarray\[[^\]]*\]'
         r'|unsigned\s+long\s+long|unsigned\s+long|unsigned\s+int|unsigned|size_t'
         r'|double|float|int|long|bint|object|Py_ssize_t)')
PARAM = re.compile(r'^\s*(?P<t>' + CTYPE + r')?\s*(?P<n>\w+)\s*(?:=\s*(?P<d>.+))?$')
FHEAD = re.compile(r'^(?P<ind>\s*)(?:def|cpdef|cdef(?:\s+inline)?)(?:\s+' + CTYPE + r')?\s+(?P<name>\w+)\s*\(')


def _split_params(s):
    out = []
    depth = 0
    cur = ''
    for ch in s:
        if ch in '([{':
            depth += 1
        if ch in ')]}':
            depth -= 1
        if ch == ',' and depth == 0:
            out.append(cur)
            cur = ''
        else:
            cur += ch
    if cur.strip():
        out.append(cur)
    return out


def _coerce_stmt(t, n):
    if t is None or t == 'object':
        return None
    if t.startswith('double['):
        return "%s = _mv_arg(%s, %d)" % (n, n, t.count(':'))
    if t.startswith('long[') or t.startswith('int['):
        return "%s = _mv_arg(%s, %d, np.int64)" % (n, n, t.count(':'))
    if t == 'float':
        return "%s = _f32(%s)" % (n, n)
    if _unsigned(t):
        return "%s = %s(%s)" % (n, _unsigned(t), n)
    if t == 'double':
        return "%s = float(%s)" % (n, n)
    if t in ('int', 'long', 'bint', 'Py_ssize_t'):
        return "%s = int(%s)" % (n, n)
    return None


def _f32(x):
    """C `float`: round to IEEE binary32"""
    return float(np.float32(x))


def _unsigned(t):
    """name of the wrap function for an unsigned C integer type, else None"""
    t = ' '.join(t.split())
    if t in ('size_t', 'unsigned long', 'unsigned long long'):
        return '_u64'
    if t in ('unsigned', 'unsigned int'):
        return '_u32'
    return None


def _u64(x):
    """conversion to a 64-bit unsigned C integer: modulo 2**64 (-1 becomes 18446744073709551615)"""
    STATS["unsigned_conversions"] = STATS.get("unsigned_conversions", 0) + 1
    return int(x) % (1 << 64)


def _u32(x):
    STATS["unsigned_conversions"] = STATS.get("unsigned_conversions", 0) + 1
    return int(x) % (1 << 32)


F32_NAMES = {}      # function-local names declared `cdef float`, per translated source (keyed by id of the line list)


def _strip_comment(ln):
    # the kernels contain no '#' inside string literals on code lines
    return ln.split('#')[0]


def translate(src, f32=None):
    lines = src.replace('\r\n', '\n').split('\n')
    out = []
    i = 0
    if f32 is None:
        f32 = {}
    cur_fn = "<module>"
    while i < len(lines):
        ln = lines[i]
        code = _strip_comment(ln)
        s = code.strip()
        m = FHEAD.match(code)
        is_func = bool(m) and (s.startswith('def ') or s.startswith('cpdef ') or
                               (s.startswith('cdef') and '(' in code and '=' not in code.split('(')[0]))
        if is_func:
            hdr = code
            j = i
            while hdr.count('(') > hdr.count(')') or not hdr.rstrip().endswith(':'):
                j += 1
                if j >= len(lines):
                    raise EmuUnsupported("unterminated function header at line %d" % (i + 1))
                hdr += ' ' + _strip_comment(lines[j])
            inner = hdr[hdr.index('(') + 1:hdr.rindex(')')]
            params = []
            coer = []
            for p in _split_params(inner):
                p = ' '.join(p.split())
                pm = PARAM.match(p)
                if not pm:
                    raise EmuUnsupported("cannot parse parameter %r (line %d)" % (p, i + 1))
                params.append(pm.group('n') + ('=' + pm.group('d') if pm.group('d') else ''))
                c = _coerce_stmt(pm.group('t'), pm.group('n'))
                if c:
                    coer.append(c)
                pt = pm.group('t')
                if pt and (pt == 'float' or _unsigned(pt)):
                    f32.setdefault(m.group('name'), {})[pm.group('n')] = '_f32' if pt == 'float' else _unsigned(pt)
            ind = m.group('ind')
            cur_fn = m.group('name')
            out.append("%sdef %s(%s):" % (ind, m.group('name'), ', '.join(params)))
            out.extend([''] * (j - i))
            out.append(ind + '    ' + ('; '.join(coer) if coer else 'pass'))
            i = j + 1
            continue
        if re.match(r'^(from\s+\S+\s+)?cimport\b', s) or re.match(r'^ctypedef\b', s):
            out.append(re.sub(r'\S.*', 'pass', ln, count=1) if ln.strip() else ln)
            i += 1
            continue
        m2 = re.match(r'^(?P<ind>\s*)cdef\s+(?P<t>' + CTYPE + r')\s+(?P<rest>.+)$', code)
        if m2:
            t = m2.group('t')
            rest = m2.group('rest').rstrip()
            ind = m2.group('ind')
            if '=' in rest:
                n, e = rest.split('=', 1)
                n = n.strip()
                e = e.strip()
                if not re.match(r'^\w+$', n):
                    raise EmuUnsupported("cannot parse cdef line %d: %r" % (i + 1, code))
                if t.startswith('double[') or t.startswith('long[') or t.startswith('int['):
                    out.append("%s%s = MV(%s)" % (ind, n, e))
                elif t in ('int', 'long', 'Py_ssize_t'):
                    out.append("%s%s = int(%s)" % (ind, n, e))
                elif t == 'float':
                    f32.setdefault(cur_fn, {})[n] = '_f32'
                    out.append("%s%s = _f32(%s)" % (ind, n, e))
                elif _unsigned(t):
                    f32.setdefault(cur_fn, {})[n] = _unsigned(t)
                    out.append("%s%s = %s(%s)" % (ind, n, _unsigned(t), e))
                elif t == 'double':
                    out.append("%s%s = float(%s)" % (ind, n, e))
                else:
                    out.append("%s%s = %s" % (ind, n, e))
            else:
                if t == 'float' or _unsigned(t):
                    for nm in rest.split(','):
                        nm = nm.strip()
                        if re.match(r'^\w+$', nm):
                            f32.setdefault(cur_fn, {})[nm] = '_f32' if t == 'float' else _unsigned(t)
                out.append(ind + 'pass')
            i += 1
            continue
        if re.match(r'^\s*cdef\b', code):
            raise EmuUnsupported("unknown cdef construct at line %d: %r" % (i + 1, code.strip()))
        ln2 = re.sub(r'\bwith\s+nogil\s*:', 'if True:', ln)
        ln2 = re.sub(r'\bxrange\b', 'range', ln2)
        out.append(ln2)
        i += 1
    return '\n'.join(out)


class _F32Tx(ast.NodeTransformer):
    """every assignment to a name declared `cdef float` (or with an unsigned integer type) in the enclosing function is
    converted the way C converts it: rounded to binary32, respectively reduced modulo 2**64 / 2**32"""
    def __init__(self, per_function):
        self.per_function = per_function
        self.names = dict(per_function.get("<module>", {}))

    def visit_FunctionDef(self, node):
        outer = self.names
        self.names = dict(self.per_function.get("<module>", {}))
        self.names.update(self.per_function.get(node.name, {}))
        self.generic_visit(node)
        self.names = outer
        return node

    def _wrap(self, v, name):
        return ast.Call(func=ast.Name(id=self.names[name], ctx=ast.Load()), args=[v], keywords=[])

    def visit_Assign(self, node):
        self.generic_visit(node)
        if len(node.targets) == 1 and isinstance(node.targets[0], ast.Name) and node.targets[0].id in self.names:
            node.value = self._wrap(node.value, node.targets[0].id)
        return node

    def visit_AugAssign(self, node):
        self.generic_visit(node)
        if isinstance(node.target, ast.Name) and node.target.id in self.names:
            load = ast.Name(id=node.target.id, ctx=ast.Load())
            return ast.copy_location(ast.Assign(targets=[node.target],
                                                value=self._wrap(ast.BinOp(left=load, op=node.op, right=node.value),
                                                                 node.target.id)), node)
        return node


class _DivTx(ast.NodeTransformer):
    def visit_BinOp(self, node):
        self.generic_visit(node)
        if isinstance(node.op, ast.Div):
            return ast.copy_location(ast.Call(func=ast.Name(id='_cdiv', ctx=ast.Load()),
                                              args=[node.left, node.right], keywords=[]), node)
        return node

    def visit_AugAssign(self, node):
        self.generic_visit(node)
        if isinstance(node.op, ast.Div):
            if not isinstance(node.target, ast.Name):
                raise EmuUnsupported("'/=' on a non-name target")
            tgt_load = ast.Name(id=node.target.id, ctx=ast.Load())
            return ast.copy_location(
                ast.Assign(targets=[node.target],
                           value=ast.Call(func=ast.Name(id='_cdiv', ctx=ast.Load()),
                                          args=[tgt_load, node.value], keywords=[])), node)
        return node


def load(path, modname, extra=None):
    with open(path) as f:
        src = f.read()
    f32 = {}
    py = translate(src, f32)
    try:
        tree = ast.parse(py, filename=path)
    except SyntaxError as e:
        raise EmuUnsupported("transliteration of %s is not valid Python: %s" % (path, e))
    if f32:
        tree = _F32Tx(f32).visit(tree)
    tree = ast.fix_missing_locations(_DivTx().visit(tree))
    mod = types.ModuleType(modname)
    mod.__file__ = path + " [emulated]"
    ns = mod.__dict__
    ns.update(np=np, MV=MV, _mv_arg=_mv_arg, _cdiv=_cdiv, _f32=_f32, _u64=_u64, _u32=_u32, fabs=fabs, fmax=fmax, fmin=fmin,
              exp=math.exp, fmod=math.fmod, sqrt=math.sqrt)
    if extra:
        ns.update(extra)
    try:
        exec(compile(tree, path, 'exec'), ns)
    except SyntaxError as e:
        raise EmuUnsupported("transliteration of %s does not compile: %s" % (path, e))
    return mod, py


MODS = ('cython_profiles', 'cython_distances', 'cython_add', 'cython_directionality')


def install(repo):
    d = os.path.join(repo, 'pyspike', 'cython')
    gt, _ = load(os.path.join(d, 'cython_get_tau.pyx'), 'pyspike.cython.cython_get_tau')
    mods = {'cython_get_tau': gt}
    for name in MODS:
        mods[name], _ = load(os.path.join(d, name + '.pyx'), 'pyspike.cython.' + name,
                             extra={'get_tau': gt.get_tau})
    import pyspike.cython as pc
    for k, m in mods.items():
        sys.modules['pyspike.cython.' + k] = m
        setattr(pc, k, m)
    return mods
