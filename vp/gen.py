"""Seeded workload generators (DESIGN.md section 3).  Pure data: no pyspike import."""
import math
import itertools


# ----------------------------------------------------------------------------------------- W1 dyadic grid
TS_CHOICES = [0.0, -4.0, 16.0, 0.5, 1024.0]


def dyadic_setting(rng, tier):
    ts = rng.choice(TS_CHOICES)
    T = 2.0 ** rng.choice([-8, -4, -2, 0, 0, 3, 6, 12])
    grid = rng.choice([4, 8, 8, 16, 16, 32, 64] + ([128, 256] if tier == "thorough" else []))
    if rng.random() < 0.04:
        ts = -T            # a recording that ENDS at 0 (t_end == 0.0 is falsy, like an interval end or a spike at 0)
    if rng.random() < 0.06:
        # a recording far from the origin (epoch-style time stamps): still exactly representable on the grid
        ts = rng.choice([2.0 ** 40, -2.0 ** 40, 2.0 ** 30])
        T = 2.0 ** rng.choice([0, 3, 6, 12])
        grid = rng.choice([4, 8, 16, 32, 64])
        if rng.random() < 0.3:
            # ... and sampled so finely that neighbouring grid points are 1, 2 or 4 ulps of the time stamps apart
            # (2**40 <= |t| < 2**41 has spacing 2**-12): every time, difference and half-difference is still exact,
            # but `t + tau` no longer is - arithmetic that is only right near the origin shows here
            ts = rng.choice([2.0 ** 40, -2.0 ** 40 - 1.0])
            grid = rng.choice([8, 16, 32, 64])
            T = grid * 2.0 ** -12 * rng.choice([1, 2, 4])
    return ts, ts + T, grid


def dyadic_train(rng, ts, te, grid, nmax, p_edge=0.25):
    T = te - ts
    n = rng.choice([0, 0, 1, 1, 2, 3] + list(range(nmax + 1)))
    n = min(n, grid - 1)
    ks = set(rng.sample(range(1, grid), n)) if n else set()
    if rng.random() < p_edge:
        ks.add(0)
    if rng.random() < p_edge:
        ks.add(grid)
    return sorted({ts + k * T / grid for k in ks})


def share_spikes(rng, src, dst):
    if not src:
        return dst
    pick = rng.sample(src, rng.randint(1, len(src)))
    return sorted(set(dst) | set(pick))


def mrts_choices(T, step):
    return [0, 0, 0, step / 2, step, 1.5 * step, 2 * step, T / 4, T, 10 * T]


def maxtau_choices(T, step):
    return [None, None, 0, step / 2, step, 2 * step, T / 4, T / 2, 0.75 * T, T, 2 * T]


def dyadic_pair(rng, tier, nmax=None):
    ts, te, grid = dyadic_setting(rng, tier)
    T = te - ts
    step = T / grid
    if nmax is None:
        nmax = rng.choice([3, 5, 8, 12]) if tier == "quick" else rng.choice([3, 5, 8, 12, 24, 60])
    s1 = dyadic_train(rng, ts, te, grid, nmax)
    s2 = dyadic_train(rng, ts, te, grid, nmax)
    if rng.random() < 0.3:
        s2 = share_spikes(rng, s1, s2)
    return {"ts": ts, "te": te, "step": step, "dyadic": True, "trains": [s1, s2]}


def dyadic_list(rng, tier, nmin=2, nmax_trains=8, nmax=None):
    ts, te, grid = dyadic_setting(rng, tier)
    T = te - ts
    step = T / grid
    N = rng.randint(nmin, nmax_trains)
    if nmax is None:
        nmax = rng.choice([3, 5, 8]) if tier == "quick" else rng.choice([3, 5, 8, 16])
    trains = [dyadic_train(rng, ts, te, grid, nmax) for _ in range(N)]
    for k in range(1, N):
        r = rng.random()
        if r < 0.15:
            trains[k] = list(trains[rng.randrange(k)])           # repeated (identical) train
        elif r < 0.40:
            trains[k] = share_spikes(rng, trains[rng.randrange(k)], trains[k])
    return {"ts": ts, "te": te, "step": step, "dyadic": True, "trains": trains}


# ----------------------------------------------------------------------------------------- W2 hostile floats
def hostile_train(rng, ts, te, nmax):
    T = te - ts
    n = rng.choice([0, 1, 1, 2, 3] + list(range(nmax + 1)))
    kind = rng.choice(["uniform", "exp", "burst"])
    out = set()
    if kind == "uniform":
        for _ in range(n):
            out.add(ts + rng.random() * T)
    elif kind == "exp":
        t = ts
        for _ in range(n):
            t += rng.expovariate(max(n, 1) / T)
            if t < te:
                out.add(t)
    else:
        c = max(1, n // 3)
        for _ in range(c):
            t0 = ts + rng.random() * T
            gap = T * 10.0 ** rng.uniform(-9, -2)
            for q in range(rng.randint(1, 3)):
                t = t0 + q * gap
                if ts < t < te:
                    out.add(t)
    out = {t for t in out if ts <= t <= te}
    if rng.random() < 0.2:
        out.add(ts)
    if rng.random() < 0.2:
        out.add(te)
    return sorted(out)


def near_tie_inject(rng, src, dst, ts, te):
    T = te - ts
    out = set(dst)
    for t in rng.sample(src, min(len(src), rng.randint(1, 3))) if src else []:
        k = rng.choice([0, 1, -1, 2])
        if k == 0:
            u = t
        elif abs(k) == 1:
            u = math.nextafter(t, math.inf if k > 0 else -math.inf)
        else:
            u = t + rng.choice([-1, 1]) * 1e-15 * T
        # no subnormal neighbourhoods: halving a subnormal ISI underflows to 0 and a power-of-two scale is no longer exact
        if ts <= u <= te and (u == t or abs(u - t) >= 1e-290):
            out.add(u)
    return sorted(out)


def near_window_inject(rng, src, dst, ts, te):
    """spikes of the other train placed at (half the smallest adjacent ISI of a source spike) * (1 +- eps) from it, eps from
    1e-13 to 1e-7: spike distance and coincidence window then differ by far more than binary64 rounding (so the comparison is
    decidable) but by less than single precision or a sloppy reformulation of the window would resolve"""
    out = set(dst)
    if len(src) < 2:
        return sorted(out)
    for _ in range(rng.randint(1, 2)):
        k = rng.randrange(len(src))
        gaps = []
        if k > 0:
            gaps.append(src[k] - src[k - 1])
        if k < len(src) - 1:
            gaps.append(src[k + 1] - src[k])
        h = min(gaps) / 2
        eps = rng.choice([1e-13, 1e-11, 1e-9, 3e-8, 1e-7]) * rng.choice([-1, 1])
        u = src[k] + rng.choice([-1, 1]) * h * (1 + eps)
        if ts < u < te and all(abs(u - v) > h / 4 for v in out):
            out.add(u)
    return sorted(out)


def hostile_pair(rng, tier):
    off = rng.choice([0.0, 0.0, 1234.5, -77.25, 1e6, 1e-3])
    T = rng.choice([1.0, 1e-3, 1e-6, 10.0, 4000.0, 3.7])
    ts = off
    te = off + T
    if not te > ts:
        te = ts + 1.0
    nmax = 10 if tier == "quick" else 30
    s1 = hostile_train(rng, ts, te, nmax)
    s2 = hostile_train(rng, ts, te, nmax)
    r = rng.random()
    if r < 0.4:
        s2 = near_tie_inject(rng, s1, s2, ts, te)
    elif r < 0.7:
        s2 = near_window_inject(rng, s1, s2, ts, te)
    return {"ts": ts, "te": te, "step": (te - ts) / 16, "dyadic": False, "trains": [s1, s2]}


def hostile_list(rng, tier, nmin=2, nmax_trains=6):
    p = hostile_pair(rng, tier)
    N = rng.randint(nmin, nmax_trains)
    trains = list(p["trains"])
    while len(trains) < N:
        t = hostile_train(rng, p["ts"], p["te"], 8)
        if rng.random() < 0.3:
            t = near_tie_inject(rng, trains[rng.randrange(len(trains))], t, p["ts"], p["te"])
        trains.append(t)
    p["trains"] = trains[:N]
    return p


# ----------------------------------------------------------------------------------------- W3 degenerate product
def degenerate_shapes(ts, te):
    T = te - ts
    return {
        "empty": [],
        "on_start": [ts],
        "on_end": [te],
        "mid": [ts + T / 2],
        "both_edges": [ts, te],
        "two_inner": [ts + T / 4, ts + 3 * T / 4],
        "edge_inner": [ts, ts + T / 4],
        "inner_edge": [ts + 5 * T / 8, te],
        "three": [ts + T / 8, ts + T / 2, ts + 7 * T / 8],
        "quarter": [ts + T / 4],
    }


def degenerate_product(n_trains, ts=0.0, te=1.0):
    shapes = degenerate_shapes(ts, te)
    names = sorted(shapes)
    for combo in itertools.product(names, repeat=n_trains):
        yield combo, [list(shapes[c]) for c in combo]


# ----------------------------------------------------------------------------------------- W6 intervals
def pick_interval(rng, ts, te, bps, kind=None):
    """interval [a,b] with ends drawn from breakpoints / half points / edges; returns (a, b, kind)"""
    T = te - ts
    cand = sorted(set(list(bps) + [ts, te]))
    if ts < 0.0 < te:
        # the number 0 is a legitimate interval end of a recording that starts before 0 - and the value on which
        # "x or default" / "if not x" idioms go wrong
        cand = sorted(set(cand + [0.0]))
    halves = [(cand[k] + cand[k + 1]) / 2 for k in range(len(cand) - 1)]
    quarters = [cand[k] + (cand[k + 1] - cand[k]) / 4 for k in range(len(cand) - 1)] + \
               [cand[k] + 3 * (cand[k + 1] - cand[k]) / 4 for k in range(len(cand) - 1)]
    kinds = ["bp_bp", "bp_half", "half_bp", "half_half", "same_piece", "from_start", "to_end", "full", "tiny"]
    kind = kind or rng.choice(kinds)
    for _ in range(20):
        if kind == "bp_bp":
            a, b = rng.choice(cand), rng.choice(cand)
        elif kind == "bp_half":
            a, b = rng.choice(cand), rng.choice(halves)
        elif kind == "half_bp":
            a, b = rng.choice(halves), rng.choice(cand)
        elif kind == "half_half":
            a, b = rng.choice(halves), rng.choice(halves)
        elif kind == "same_piece":
            k = rng.randrange(len(cand) - 1)
            w = cand[k + 1] - cand[k]
            a, b = cand[k] + w / 4, cand[k] + 3 * w / 4
        elif kind == "from_start":
            a, b = ts, rng.choice(cand[1:] + halves)
        elif kind == "to_end":
            a, b = rng.choice(cand[:-1] + halves), te
        elif kind == "full":
            a, b = ts, te
        else:
            a = rng.choice(cand[:-1] + halves)
            b = a + T / 1024
        if a > b:
            a, b = b, a
        if ts <= a < b <= te:
            return a, b, kind
        kind = rng.choice(kinds)
    return ts, te, "full"


def crowd_list(rng, n_trains):
    """W15: a crowd - well over a hundred trains, almost all with a single spike inside one narrow burst (every spike is
    coincident with more than 127 / 255 others), a few with two or three spikes, a few empty.  Counts, sums and
    multiplicities then exceed what an 8-bit accumulator holds; the trains are tiny, so the case stays cheap."""
    ts, te = rng.choice([(0.0, 64.0), (-32.0, 32.0), (16.0, 80.0)])
    centre = ts + 32.0
    trains = []
    for q in range(n_trains):
        r = rng.random()
        t = centre + (q - n_trains // 2) * 2.0 ** -10
        if r < 0.03:
            trains.append([])
        elif r < 0.08:
            trains.append(sorted({ts + 4.0, t}))
        elif r < 0.12:
            trains.append(sorted({t, te - 6.0 + (q % 4) * 0.5}))
        elif r < 0.2:
            trains.append([centre])              # the same instant in several trains
        else:
            trains.append([t])
    rng.shuffle(trains)
    return {"ts": ts, "te": te, "step": 2.0 ** -10, "dyadic": True, "trains": trains, "src": "W15"}


def pick_interval_list(rng, ts, te, bps, nmin=2, nmax=4):
    """a list of nmin..nmax disjoint (sometimes touching) windows with ends on breakpoints / half points / edges, listed in
    time order or not; some windows may contain no event at all"""
    cand = sorted(set(list(bps) + [ts, te]))
    halves = [(cand[k] + cand[k + 1]) / 2 for k in range(len(cand) - 1)]
    pts = sorted(set(cand + halves))
    n = rng.randint(nmin, nmax)
    if len(pts) < 2 * n:
        # not enough distinct points: subdivide the recording evenly
        pts = sorted(set(pts + [ts + (te - ts) * q / (4 * n) for q in range(4 * n + 1)]))
    for _ in range(20):
        cuts = sorted(rng.sample(pts, min(len(pts), 2 * n)))
        wins = []
        q = 0
        while q + 1 < len(cuts):
            a, b = cuts[q], cuts[q + 1]
            if wins and rng.random() < 0.35:
                a = wins[-1][1]               # touching the previous window
            if b > a:
                wins.append([a, b])
            q += 2
        if len(wins) >= nmin:
            if rng.random() < 0.5:
                rng.shuffle(wins)
            return wins
    h = (ts + te) / 2
    return [[ts, h], [h, te]]


# ----------------------------------------------------------------------------------------- coverage words
def word_of(trains, ts, te):
    """interleaving word of a list of trains: merged distinct event times, each labelled with the set of owners,
    plus edge flags; returned as a compact string"""
    ev = {}
    for n, s in enumerate(trains):
        for t in s:
            ev.setdefault(t, []).append(n)
    parts = []
    for t in sorted(ev):
        lab = "".join(chr(ord('a') + n) if n < 26 else "?" for n in ev[t])
        if t == ts:
            lab = "^" + lab
        if t == te:
            lab = lab + "$"
        parts.append(lab)
    return ".".join(parts)


def nontrivial_pair(trains):
    return len(trains) >= 2 and all(len(s) >= 1 for s in trains[:2]) and sum(len(s) for s in trains) >= 3


def size_class(n):
    return "0" if n == 0 else "1" if n == 1 else "2" if n == 2 else "few" if n <= 5 else "many"


def min_isi(trains, ts, te):
    m = te - ts
    for s in trains:
        for a, b in zip(s, s[1:]):
            m = min(m, b - a)
    return m


# ----------------------------------------------------------------------------------------- W8 function histories
VALS = [0.0, 1.0, -1.0, 0.5, -0.5, 2.25, 0.25, 0.75, 3.0, -2.0, 0.125]
WILD = [4e15, -4e15, 1e17, 3e8, 0.25, 1.0, -0.75, 1e-12, 0.0]


def func_setting(rng):
    ts = rng.choice([0.0, -4.0, 16.0, 0.5])
    T = rng.choice([1.0, 8.0, 64.0, 0.25])
    grid = rng.choice([4, 8, 16, 32])
    if rng.random() < 0.06:
        ts = rng.choice([2.0 ** 40, -2.0 ** 40, 2.0 ** 30])      # far from the origin, still exact on the grid
        T = rng.choice([1.0, 8.0, 64.0])
    return ts, ts + T, grid


def rand_breaks(rng, ts, te, grid, maxn=12, dyadic=True):
    T = te - ts
    n = rng.choice([0, 0, 1, 1, 2, 3] + list(range(maxn + 1)))
    if dyadic:
        n = min(n, grid - 1)
        ks = sorted(rng.sample(range(1, grid), n)) if n else []
        return [ts] + [ts + k * T / grid for k in ks] + [te]
    pts = sorted({ts + rng.random() * T for _ in range(n)})
    pts = [t for t in pts if ts < t < te]
    return [ts] + pts + [te]


def _no_subnormal_gaps(x):
    """breakpoints closer than 1e-290 (possible 1 ulp next to 0.0) are outside the domain: binary64 interpolation between
    them underflows.  The end points are kept."""
    out = [x[0]]
    for t in x[1:-1]:
        if t - out[-1] >= 1e-290 and x[-1] - t >= 1e-290:
            out.append(t)
    out.append(x[-1])
    return out


def pwc_func(rng, ts, te, grid, shared=None, int_valued=False, dyadic=True, wild=False):
    x = rand_breaks(rng, ts, te, grid, dyadic=dyadic)
    if shared and rng.random() < 0.4:
        pick = rng.sample(shared, min(len(shared), rng.randint(1, 3)))
        if not dyadic or rng.random() < 0.15:
            # near ties: a breakpoint of another operand moved by 1 ulp / 1e-9 relative / 1e-6 of the recording
            pick = [rng.choice([t, math.nextafter(t, math.inf), math.nextafter(t, -math.inf), t * (1 + 1e-9), t + (te - ts) * 1e-6])
                    for t in pick]
        inner = sorted(t for t in (set(x[1:-1]) | set(pick)) if ts < t < te)
        x = _no_subnormal_gaps([ts] + inner + [te])
    if int_valued:
        y = [rng.randint(0, 5) for _ in range(len(x) - 1)]
    elif wild and rng.random() < 0.05:
        # a large dynamic range inside one function (counts next to rates, an outlier piece): every piece of a sum is
        # still the rounded sum of the operands' values on that piece
        y = [rng.choice(WILD) for _ in range(len(x) - 1)]
    else:
        y = [rng.choice(VALS) if rng.random() < 0.8 else rng.uniform(-3, 3) for _ in range(len(x) - 1)]
    return {"x": x, "y": y}


def pwl_func(rng, ts, te, grid, shared=None, dyadic=True, int_valued=False):
    f = pwc_func(rng, ts, te, grid, shared, dyadic=dyadic)
    n = len(f["x"]) - 1
    if int_valued:
        return {"x": f["x"], "y1": [rng.randint(0, 4) for _ in range(n)], "y2": [rng.randint(0, 4) for _ in range(n)]}
    y1 = [rng.choice(VALS) if rng.random() < 0.8 else rng.uniform(-3, 3) for _ in range(n)]
    y2 = [(y1[k] if rng.random() < 0.2 else rng.choice(VALS)) for k in range(n)]
    return {"x": f["x"], "y1": y1, "y2": y2}


def disc_func(rng, ts, te, grid, shared=None, base_mp=1):
    T = te - ts
    n = rng.choice([0, 0, 1, 2, 3] + list(range(9)))
    n = min(n, grid - 1)
    ks = set(rng.sample(range(1, grid), n)) if n else set()
    if rng.random() < 0.3:
        ks.add(0)
    if rng.random() < 0.3:
        ks.add(grid)
    times = sorted(ts + k * T / grid for k in ks)
    if shared and rng.random() < 0.5:
        times = sorted(set(times) | set(rng.sample(shared, min(len(shared), rng.randint(1, 3)))))
    mp = [float(base_mp * rng.choice([1, 1, 1, 2, 3])) for _ in times]
    y = [float(rng.randint(0, int(m))) if rng.random() < 0.8 else float(-rng.randint(0, int(m))) for m in mp]
    if times:
        x = [ts] + times + [te]
        return {"x": x, "y": [y[0]] + y + [y[-1]], "mp": [mp[0]] + mp + [mp[-1]]}
    return {"x": [ts, te], "y": [float(base_mp), float(base_mp)], "mp": [float(base_mp), float(base_mp)]}


def history(rng, kind, tier, wild=False):
    """random operation sequence over a pool of functions of one kind ('pwc' | 'pwl' | 'disc')"""
    ts, te, grid = func_setting(rng)
    dyadic = rng.random() < 0.8
    nf = rng.randint(2, 4)
    funcs = []
    shared = []
    int_valued = (kind in ("pwc", "pwl") and rng.random() < 0.15)
    for _ in range(nf):
        if kind == "pwc":
            f = pwc_func(rng, ts, te, grid, shared, int_valued=int_valued, dyadic=dyadic, wild=wild)
        elif kind == "pwl":
            f = pwl_func(rng, ts, te, grid, shared, dyadic=dyadic, int_valued=int_valued)
        else:
            f = disc_func(rng, ts, te, grid, shared)
        if funcs and rng.random() < 0.12:
            # near-copy of an earlier operand's support: same number of breakpoints, each moved by <= 1e-6 relative
            src = rng.choice(funcs)
            xs = [src["x"][0]]
            for t in src["x"][1:-1]:
                u = rng.choice([t, t, math.nextafter(t, math.inf), t * (1 + 1e-9), t + (te - ts) * 1e-7, t - (te - ts) * 1e-7])
                if xs[-1] < u < te:
                    xs.append(u)
            xs.append(src["x"][-1])
            xs = _no_subnormal_gaps(xs)
            n_ = len(xs) - 1
            if kind == "pwc":
                f = {"x": xs, "y": [rng.choice(VALS) for _ in range(n_)]}
            elif kind == "pwl":
                f = {"x": xs, "y1": [rng.choice(VALS) for _ in range(n_)], "y2": [rng.choice(VALS) for _ in range(n_)]}
            elif len(xs) > 2:
                mpv = [float(rng.choice([1, 1, 2])) for _ in xs[1:-1]]
                yv = [float(rng.randint(0, int(m))) for m in mpv]
                f = {"x": xs, "y": [yv[0]] + yv + [yv[-1]], "mp": [mpv[0]] + mpv + [mpv[-1]]}
        shared = sorted(set(shared) | set(f["x"][1:-1]))
        funcs.append(f)
    nops = rng.randint(1, 8 if tier == "quick" else 12)
    ops = []
    npool = nf
    for _ in range(nops):
        r = rng.random()
        if r < 0.55:
            i = rng.randrange(npool)
            j = rng.randrange(npool)
            if i == j and rng.random() < 0.8:
                j = (j + 1) % npool
            ops.append(["add", i, j])
        elif r < 0.80 and kind != "disc":
            ops.append(["mul", rng.randrange(npool), rng.choice([0.5, 2.0, -1.0, 0.25, 1.0 / 3, 3.0, 0.0, 1.5])])
        elif r < 0.85 and kind == "disc":
            ops.append(["mul", rng.randrange(npool), rng.choice([0.5, 2.0])])
        else:
            ops.append(["copy", rng.randrange(npool)])
            npool += 1
    return {"kind": kind, "ts": ts, "te": te, "grid": grid, "dyadic": dyadic, "int_valued": int_valued,
            "funcs": funcs, "ops": ops}


# ----------------------------------------------------------------------------------------- W12 recorded data
_REAL = {}


def real_trains(repo):
    """the spike trains shipped with the repository's tests (edges [0, 4000]); parsed here, not through pyspike"""
    if repo in _REAL:
        return _REAL[repo]
    import os
    out = []
    for fn in ("PySpike_testdata.txt", "SPIKE_Sync_Test.txt"):
        path = os.path.join(repo, "test", fn)
        try:
            with open(path) as f:
                for line in f:
                    if line.startswith("#") or len(line) <= 1:
                        continue
                    vals = sorted({float(v) for v in line.split()})
                    vals = [v for v in vals if 0.0 <= v <= 4000.0]
                    if vals:
                        out.append(vals)
        except OSError:
            pass
    _REAL[repo] = out
    return out


def real_case(rng, repo, n_trains=2, max_spikes=40):
    pool = real_trains(repo)
    if len(pool) < n_trains:
        return None
    trains = []
    for s in rng.sample(pool, n_trains):
        if len(s) > max_spikes:
            k = rng.randrange(len(s) - max_spikes + 1)
            s = s[k:k + max_spikes]
        trains.append(list(s))
    return {"ts": 0.0, "te": 4000.0, "step": 250.0, "dyadic": False, "trains": trains}


# ----------------------------------------------------------------------------------------- W13 long trains
def long_pair(rng):
    """one long train (130..300 spikes, so that any 'only for long inputs' fast path is entered) against a short one;
    the long train often starts late / ends early so that the other train has spikes outside its span"""
    ts = rng.choice([0.0, -4.0, 16.0])
    T = rng.choice([64.0, 512.0])
    te = ts + T
    grid = 1024
    n = rng.randint(130, 300)
    lo = rng.choice([1, 1, grid // 4, grid // 2])
    hi = rng.choice([grid - 1, grid - 1, 3 * grid // 4 + 100])
    ks = sorted(rng.sample(range(lo, hi), min(n, hi - lo)))
    long_ = [ts + k * T / grid for k in ks]
    m = rng.choice([1, 2, 3, 5, 8])
    short = sorted(ts + k * T / grid for k in rng.sample(range(0, grid + 1), m))
    if rng.random() < 0.3 and long_:
        short = sorted(set(short) | {rng.choice(long_)})
    trains = [long_, short] if rng.random() < 0.5 else [short, long_]
    return {"ts": ts, "te": te, "step": T / grid, "dyadic": True, "trains": trains}


# ----------------------------------------------------------------------------------------- W14 window-scale trains
def window_scale_list(rng, n_trains=2):
    """trains whose inter-spike intervals, cross-train offsets and max_tau are all of the same order: ISIs in (m, 2m),
    partner offsets in +-(0.3m, 1.1m) - the regime in which the max_tau cap, the half-ISI window and the spike distance
    actually compete.  Arbitrary floats (no grid), so exact ties are not expected."""
    m = 10.0 ** rng.uniform(-2, 1)
    ts = rng.choice([0.0, 0.0, 5.0, -3.0])
    n = rng.randint(4, 14)
    t = ts + rng.uniform(0.2, 2.0) * m
    base = []
    for _ in range(n):
        base.append(t)
        t += rng.uniform(1.05, 1.95) * m
    te = t + rng.uniform(0.0, 2.0) * m
    trains = [base]
    for _ in range(n_trains - 1):
        other = []
        for u in base:
            if rng.random() < 0.7:
                v = u + rng.choice([-1, 1]) * rng.uniform(0.3, 1.1) * m
                if ts < v < te:
                    other.append(v)
        other = sorted(set(other))
        other = [v for k, v in enumerate(other) if k == 0 or v - other[k - 1] > 1e-9]
        trains.append(other)
    rng.shuffle(trains)
    return {"ts": ts, "te": te, "step": m, "dyadic": False, "trains": trains, "m": m}
