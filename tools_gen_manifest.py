"""Regenerate MANIFEST.json from the property modules (run from /verif with /venv/bin/python)."""
import importlib
import json
import sys

sys.path.insert(0, "/verif")
LEVEL_TEXT = {
 "C01": "Runtime monitoring: thousands of generated pairs per run, every execution of isi_profile/isi_distance judged by an exact-rational reference model of the statement (breakpoints exactly), in the fallback and in the emulated-compiled configuration. Right level because the property is a for-all-inputs equality with a computable oracle.",
 "C02": "Runtime monitoring with an exact-rational oracle of the SPIKE definition (one-sided limits at every breakpoint, pointwise values, exact zeros at shared spikes), both configurations.",
 "C03": "Runtime monitoring: O(n*m) pairwise coincidence definition in exact arithmetic vs profile, per-spike indicator and scalar; dyadic-grid workload makes distance==window ties frequent and exactly decidable.",
 "C04": "Runtime monitoring: pairwise sign model for the bivariate layer, identities between real executions for values/matrix/synfire/indices.",
 "C05": "Runtime monitoring: returned profile arrays are re-integrated exactly and compared with the scalar route over generated interval positions; both configurations (single-pass kernels are separately written code).",
 "C06": "Runtime monitoring: all pair profiles from the real API are aggregated by an exact function-algebra model and compared with the multivariate result at every breakpoint; permutations re-executed.",
 "C07": "Runtime monitoring: range / symmetry / identity axioms asserted on every generated execution incl. sub-intervals; both configurations.",
 "C08": "Runtime monitoring with metamorphic oracles: exact dyadic shift / scale / reflection relations between two real executions.",
 "C09": "Runtime monitoring of histories: random add/mul_scalar/copy sequences checked step by step against an exact executable model, with byte-level operand guards and shared-memory checks.",
 "C10": "Runtime monitoring: query/mutate/query mini-histories on piecewise functions vs exact model over all relative interval positions, incl. times 1 ulp from breakpoints.",
 "C11": "Runtime monitoring of histories of discrete profiles vs an exact event-map model; unit-window model for the smoothing.",
 "C12": "Differential runtime monitoring of the 15 routine pairs: the .pyx source text is executed through a syntactic transliteration with a bounds-checking memoryview proxy and compared with the Python twin on identical arguments. Exploration of a transliteration, not of Cython-generated C.",
 "C13": "Runtime monitoring: reconcile model on dirty input, dirty-vs-clean and Reconcile on/off identities through every entry point, input-immutability guard (bytes, edges, identity, read-only arrays) on every call, shares_memory checks.",
 "C14": "Runtime monitoring: identities between real executions of every call form / index selection for all measures and keyword settings.",
 "C15": "Runtime monitoring: MRTS=0/omitted, monotonicity, no-op region, 'auto' plumbing through every entry point, default_thresh vs exact pooled RMS.",
 "C16": "Runtime monitoring: necessary condition (no coincidence at distance >= max_tau) read off every output, None/0 equality, monotonicity, plus an icontract post-condition on every coincidence-window evaluation.",
 "C17": "Runtime monitoring: kept set vs exact pairwise model and vs the real multivariate profile, partition, monotonicity; threshold hit exactly for N-1 in {1,2,4,8}.",
 "C18": "Runtime monitoring: full degenerate product through all 24 entry points (+filter), both configurations, with structural class invariants (icontract) on every returned profile.",
 "C19": "Runtime monitoring: save/load round trips over separators x precisions x comment strings, string and time-series imports, scalar edges of python/numpy types.",
 "C20": "Runtime monitoring: merge vs multiset union, PSTH vs independent counting, seeded Poisson trains over shifted intervals.",
}
NOTE = ("Trusted base: CPython/numpy, vp/ref.py (exact-rational models written from the statements), the workload generators, and - for the "
        "'emulated' configuration - vp/pyxemu.py (mechanical .pyx transliteration; no Cython-generated C is ever executed in this sandbox). "
        "Always-on monitors in every check: icontract class invariants (M1), input-immutability guard with read-only arrays (M2), icontract kernel post-conditions (M3), "
        "branch-arm observer (M4, evidence only), cursor-progress monitor on the kernels' while-scans (M6), repeat-call monitor (M7), uninitialised-memory poison for np.empty (M8), bounded-progress watchdog. "
        "Held on the executions of each run only; evidence lists what was observed.")
TECH = {
 "C01": "runtime monitoring: reference-model oracle (exact rational) over generated executions + cross-call history probes + cursor-progress / repeat-call monitors",
 "C02": "runtime monitoring: reference-model oracle (exact rational) over generated executions + cross-call history probes + cursor-progress / repeat-call monitors",
 "C03": "runtime monitoring: pairwise-definition oracle + icontract kernel post-conditions + cross-call history probes",
 "C04": "runtime monitoring: sign-model oracle + identities between real executions",
 "C05": "runtime monitoring: exact re-integration of returned profiles (cross-route identity)",
 "C06": "runtime monitoring: executable function-algebra model over real pair profiles; permutation re-execution",
 "C07": "runtime monitoring: axiom assertions (range/symmetry/identity) on every execution",
 "C08": "runtime monitoring: metamorphic relations (dyadic shift/scale/reflection)",
 "C09": "runtime monitoring: history vs executable model, operand byte guards, icontract class invariants",
 "C10": "runtime monitoring: query/mutate/query histories vs exact model",
 "C11": "runtime monitoring: history vs exact event-map model",
 "C12": "differential runtime monitoring: emulated .pyx (bounds-checked) vs Python twin",
 "C13": "runtime monitoring: input-immutability guard + reconcile model + dirty/clean differential + in-place-edit / list-mutation histories",
 "C14": "runtime monitoring: call-form / index-selection identities between real executions",
 "C15": "runtime monitoring: monotonicity / no-op / 'auto' plumbing identities + exact RMS oracle",
 "C16": "runtime monitoring: output-level necessary condition + icontract post-condition on get_tau",
 "C17": "runtime monitoring: pairwise-model oracle cross-checked with real profiles; partition & monotonicity",
 "C18": "runtime monitoring: totality/well-formedness assertions + icontract class invariants over the degenerate product",
 "C19": "runtime monitoring: round-trip oracle over generated files",
 "C20": "runtime monitoring: conservation oracles (multiset union, independent bin counts)",
}
props = [json.loads(l) for l in open("/verif/properties.jsonl")]
checks = []
for p in props:
    pid = p["id"]
    mod = importlib.import_module("vp.props." + pid.lower())
    checks.append({
        "property_id": pid,
        "quick_cmd": "/venv/bin/python -B -m vp.check %s --tier quick" % pid,
        "thorough_cmd": "/venv/bin/python -B -m vp.check %s --tier thorough" % pid,
        "evidence_file": "/verif/evidence/%s.json" % pid,
        "replay_cmd_template": "/venv/bin/python -B -m vp.check %s --replay {path}" % pid,
        "engine": "vp",
        "level_claimed": {"category": "exploration", "text": LEVEL_TEXT[pid], "design_ref": "DESIGN.md section 7 (%s)" % pid},
        "level_note": NOTE,
        "technique": TECH[pid],
    })
m = {
 "version": 1,
 "setup_cmd": "/venv/bin/python -B -m vp.selftest",
 "hooks": {"guard": "PYSPIKE_VERIF",
           "enable": "no source hooks exist in /repo: all instrumentation is applied from the harness at import time (attribute patching of backend kernels with icontract post-conditions, in-place icontract class invariants, sys.modules injection of the emulated .pyx modules, sys.monitoring branch-arm observer, replacement of the modules' global `np` by a proxy whose empty/empty_like return poisoned memory)",
           "baseline_off_cmd": "cd /repo && /venv/bin/python -m pytest -ra -q -p no:cacheprovider --timeout=900 --continue-on-collection-errors",
           "source_commits": [], "add_only": True},
 "engines": [{"name": "vp", "path": "/verif/vp", "serves_properties": [p["id"] for p in props],
              "kind_free_text": "runtime-monitoring harness: seeded hostile workloads, exact-rational reference models, icontract contracts/invariants, input-immutability guard, .pyx emulator with bounds-checked memoryviews, per-case bounded-progress watchdog"}],
 "checks": checks,
 "not_applicable": [],
 "notes": "Every check: exit 0 held / exit 1 VIOLATION line with replay file / exit 2 INCONCLUSIVE (must-see class unobserved, contract never evaluated, emulator cannot transliterate, watchdog). known_findings.json lists repaired defects (status fixed:<commit>, suppress nothing); no open finding at present. VERIF_SEED / VERIF_TIER honoured. /verif/seeded holds 239 confirmed property-breaking changes (226 by independent sub-agents in six rounds, 13 reverse repairs) all of which the quick tier detects; /verif/refactors holds 24 behaviour-preserving refactorings on which every check stays silent; /verif/mutation holds classical mutation sweeps.",
}
json.dump(m, open("/verif/MANIFEST.json", "w"), indent=1)
print("wrote MANIFEST with", len(checks), "checks")
